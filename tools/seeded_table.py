#!/venv/bin/python
"""Regenerate the table of seeded changes in DESIGN.md (between the markers <!-- seeded-table:begin/end -->) from
seeded/*/meta.json. The verdicts in it are those recorded by tools/adopt_seeded.py (or refreshed by
tools/selftest.py into mutants/RESULTS.txt)."""
import glob
import json
import os
import re

VERIF = os.path.dirname(os.path.dirname(os.path.abspath(__file__)))
BEGIN, END = "<!-- seeded-table:begin -->", "<!-- seeded-table:end -->"


def rows():
    out = []
    for d in sorted(glob.glob(os.path.join(VERIF, "seeded", "C[0-9][0-9]?"))):
        name = os.path.basename(d)
        try:
            meta = json.load(open(os.path.join(d, "meta.json")))
        except Exception:
            continue
        summary = " ".join(str(meta.get("summary", "")).split()).replace("|", "/")
        if len(summary) > 150:
            summary = summary[:150] + "…"
        verdicts = meta.get("check_verdicts_when_adopted", {})
        rep = []
        for cid, v in sorted(verdicts.items()):
            if v.get("exit") == 1:
                m = re.search(r"key=(\S+)", v.get("first_violation", ""))
                rep.append("%s: `%s`" % (cid, m.group(1) if m else "violation"))
        out.append("| %s | %s | %s | %s |" % (name, meta.get("property", name[:3]), summary, "; ".join(rep) or "**not reported**"))
    return out


def main():
    path = os.path.join(VERIF, "DESIGN.md")
    text = open(path).read()
    table = "\n".join(["| change | property | what it is | reported by: first violation key |", "|---|---|---|---|"] + rows())
    if BEGIN in text and END in text:
        text = text[:text.index(BEGIN) + len(BEGIN)] + "\n" + table + "\n" + text[text.index(END):]
    else:
        # first use: replace the existing table (header line up to the last table row)
        start = text.index("| change | property | what it is | reported by: first violation key |")
        end = start
        for m in re.finditer(r"^\|.*\|\n", text[start:], re.M):
            if m.start() != end - start:
                break
            end = start + m.end()
        text = text[:start] + BEGIN + "\n" + table + "\n" + END + "\n" + text[end:]
    open(path, "w").write(text)
    print("%d rows" % len(rows()))


if __name__ == "__main__":
    main()
