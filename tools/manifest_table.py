"""Table of registered checks (one reg() call per property whose check exists and passes on the tree)."""

NOT_APPLICABLE = {}


def register(reg):
    reg("C01", "ENUM", "exploration",
        "bounded exhaustive enumeration of pairs/triples over order-complete alphabets",
        "Every ordered pair and triple of signed-cost vectors of length 1..4 (thorough ..6) over value alphabets that "
        "realise every weak order per coordinate, crossed with all marker pairs, for the Pareto comparator and seven "
        "epsilon lists, compared with dominance by definition and the algebraic laws. The scan is a 4-state automaton "
        "over <,=,> so length<=4 sequences traverse every transition: exhaustive for the behaviour, not a sample.",
        "Markers restricted to the values artap writes (False/True); NaN and mixed lengths outside the statement.",
        "DESIGN.md section 5 C01")
