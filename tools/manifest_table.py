"""Table of registered checks (one reg() call per property whose check exists and passes on the tree)."""

NOT_APPLICABLE = {}


def register(reg):
    reg("C01", "ENUM", "exploration",
        "bounded exhaustive enumeration of pairs/triples over order-complete alphabets",
        "Every ordered pair and triple of signed-cost vectors of length 1..6 over value alphabets that realise every weak "
        "order per coordinate (incl. the hash-colliding -1.0/-2.0, adjacent floats and 1e-12 neighbours), long vectors "
        "m=7..12, crossed with all marker pairs, for the Pareto comparator and seven epsilon lists, compared with dominance "
        "by definition and the algebraic laws; every verdict is asked twice on one comparator object (history independence); "
        "over numeric markers of both signs only the stated laws are checked. The scan is a 4-state automaton over <,=,> so "
        "short sequences traverse every transition: exhaustive for the behaviour, not a sample.",
        "Reference verdicts only for the markers artap writes (False/True); NaN and mixed lengths outside the statement.",
        "DESIGN.md section 5 C01")

    reg("C02", "ENUM", "exploration",
        "bounded exhaustive enumeration of populations in every input order; coverage in labelled posets realised",
        "Every sequence of up to 4 (one objective: 6; thorough: 5 over a 5x5 grid) cost vectors, in every order, sorted by the "
        "real sorter and compared with rank by the recursive definition. The sorter sees costs only through the verdict matrix; "
        "the run counts the distinct labelled dominance relations it realised against the number of labelled posets "
        "(1,3,19,219,4231), so for populations up to that size the result holds for any number of objectives and any values.",
        "Comparator correctness is C01's job; ids unique within a population.",
        "DESIGN.md section 5 C02")
    reg("C03", "ENUM", "exploration",
        "bounded exhaustive enumeration of ranked populations x truncation sizes, fronts, tournament draws",
        "Every sequence of <=4 designs over a 4x4 vector lattice (with the -1.0/-2.0 hash collision and colliding costs) x every k; "
        "every front with tie-free permutation columns (exact formula) and tie-rich columns (bounds only, as stated); every "
        "population x every ordered candidate pair x both coin results for the tournament, with the draws owned by the harness.",
        "Front numbers come from the real sorter (C02). The exact crowding formula is demanded only on tie-free fronts.",
        "DESIGN.md section 5 C03")
    reg("C04", "BFS", "model_checking",
        "explicit-state BFS to a fixed point over real Archive objects, lockstep reference model",
        "All reachable ordered archive contents over finite cost alphabets are enumerated until no new state appears, so the "
        "add() clauses are decided for histories of every length over those alphabets, for the Pareto and two epsilon "
        "comparators; every transition is an execution of the real add() compared with nd(offered). Short histories from "
        "scratch and every truncate on every reachable state complete it.",
        "Archive has no state beyond its ordered member list; the alphabets realise all order relations of <=3 values per objective.",
        "DESIGN.md section 5 C04")
    reg("C20", "ENUM", "exploration",
        "bounded exhaustive enumeration of vector pairs, perturbation subsets and scripted generate() runs",
        "All base vectors n<=4 over a lattice x every non-empty coordinate subset x every amount assignment, both orders, against "
        "equality by definition; membership/set/remove on all small lists (incl. colliding hashes); GeneticAlgorithm.generate "
        "driven by every script of three child pairs with stub operators.",
        "Equal-length finite vectors; amounts keep clear of the 1e-10 threshold.",
        "DESIGN.md section 5 C20")

    reg("C15", "ENUM", "exploration",
        "exhaustive enumeration of a finite box lattice per benchmark and dimension (lattice only)",
        "Each single-objective benchmark x each accepted dimension x every point of a box lattice including both bounds, the "
        "documented optimum and its axis neighbours, as Python floats and numpy scalars; XinSheYang3 with its random draws "
        "owned and enumerated. Decides totality, value at the optimum and 'no lattice point better' on that finite set; "
        "a dip narrower than the lattice pitch is not seen (stated limit of the technique on a continuum).",
        "Tolerance 1e-3 absolute as in the statement; lattice pitch as listed in the evidence.",
        "DESIGN.md section 5 C15")
    reg("C16", "ENUM", "exploration",
        "exhaustive enumeration of a finite box lattice per problem family (lattice only)",
        "DTLZ1-4 for m=2..5, ZDT1 and the bi-objective problem on a lattice with position variables on a full grid and distance "
        "variables deviating from 0.5 in every <=2-subset to every level; identities recomputed with an independent g. The "
        "identities are algebraic, so one generic lattice point per variable role already separates index/sin-cos/slice mistakes.",
        "Lattice only; tolerance 1e-9 relative to (1+g).",
        "DESIGN.md section 5 C16")

    reg("C17", "ENUM", "exploration",
        "bounded exhaustive enumeration of recording histories and of small point sets",
        "Every recording history of <=3 individuals (<=4/5 for tag order) over alphabets with duplicate values, interleaved and "
        "unsorted tags, min/max/absent criteria is replayed into a real Problem and every query is compared with a list "
        "comprehension over the recorded individuals; gd and epsilon_add on every reference x computed pair of subsets of a 3x3 grid "
        "against their definitions, plus the shift law.",
        "parameters()/costs() index pairing demanded only for contiguously recorded generations.",
        "DESIGN.md section 5 C17")

    reg("C12", "ENUM", "exploration",
        "bounded exhaustive enumeration of sizes, permutations and extreme draws with numpy's RandomState owned",
        "LHS is run with a scripted RandomState: every combination of column permutations for N<=4 (<=2 columns) and every "
        "uniform-draw pattern with <=2 cells at the extremes, so 'one sample per stratum' is decided for all draws of those "
        "sizes rather than for one seed; Halton is compared point by point with an independent radical inverse up to N=64 in "
        "6 bases (forcing the second prime-sieve round); grids and random counts are enumerated outright.",
        "Scripted RandomState honours numpy's contract; tolerance 1e-12 relative.",
        "DESIGN.md section 5 C12")
    reg("C13", "ENUM", "exploration",
        "bounded exhaustive enumeration of design sizes and level vectors",
        "Every supported Plackett-Burman size (1..23), Box-Behnken 3..8, every full-factorial level shape in {1..4}^{1..4} and every "
        "GSD level vector in {2..5}^{2..4} x reduction 2..5 x complementary count is generated and its defining structure "
        "(product, orthogonality/balance, pair corners + centre, disjoint cover) is checked exactly.",
        "Documented refusals (ValueError, size assertion) are accepted results.",
        "DESIGN.md section 5 C13")

    reg("C19", "BFS", "model_checking",
        "exhaustive exploration of request x hook-answer sequences in lockstep with a reference automaton",
        "Every sequence of evaluation requests to depth 7 (thorough 10) with every accept/decline answer of the predict hook, for "
        "every train_step, initial trained flag and hook presence, on both real predicting wrappers (stub regressors) and the "
        "pass-through wrapper; after each request returned object, objective log, counters, training set, fit calls and trained "
        "flag are compared with a six-line automaton. Counters are unbounded, so this is depth-bounded, not a fixed point.",
        "Regressor numerics are stubbed out; only the wrapper's accounting is in scope.",
        "DESIGN.md section 5 C19")
    reg("C06", "CHOICE", "fault_enumeration",
        "exhaustive fault-pattern enumeration on the real retry loop (stateless choice-sequence explorer)",
        "Each objective call is a free four-way environment choice; all patterns over serial batches of one and two designs are "
        "executed (94 leaves per design, including exactly four and exactly five consecutive failures and both transient types), "
        "re-sampled coordinates additionally pushed to both extremes, and every execution is judged by a reference retry protocol.",
        "Faults are raised by the harness wrapper at objective entry; parallel-worker failures are explored in C07's harness.",
        "DESIGN.md section 5 C06")
    reg("C05", "ENUM", "exploration",
        "bounded exhaustive enumeration of batches/histories/sign and constraint assignments + per-call oracle on every scalar optimiser",
        "All batches of <=3 designs with every new/evaluated mix, evaluated 1-3 times, serial and through the 2-worker model executor; "
        "every min/max/absent assignment x cost values incl. rounding cases; every pair of constraint outcomes; sweeps over four "
        "generator kinds; and all 8 Jacobian-free SciPy methods and 13 NLopt algorithms artap lists, each call checked against "
        "the call log (vector recorded, true cost stored, signed cost handed back).",
        "Which points SciPy/NLopt query is theirs to choose; the oracle is per call.",
        "DESIGN.md section 5 C05")

    reg("C07", "SCHED", "model_checking",
        "pre-emption-bounded enumeration of worker-thread interleavings of the real code under a controlled scheduler",
        "Algorithm.evaluate with two workers runs on real threads under a cooperative scheduler that owns every scheduling point "
        "(task start/end, objective entry/exit, every SQLite connect/execute/commit/close; thorough: every source line of job.py and "
        "datastore.py) and the SQLite busy-timeout outcome; all schedules within the deviation bound are executed and each is compared "
        "with serial evaluation, one objective call per design and one row per design equal to its final data. Two tasks without "
        "store are explored without bound; others to the bound stated in the evidence.",
        "joblib is modelled by an executor with its contract incl. timeout and require (cross-checked by a free-running pass through "
        "real joblib); two workers in depth, three / four workers with <=1 pre-emption; below line granularity only where the harness puts a scheduling point (numpy calls of "
        "artap.individual, serialisation of custom data).",
        "DESIGN.md section 5 C07, section 3.4")
    reg("C14", "ENUM", "exploration",
        "bounded exhaustive enumeration of batch sequences + decision-flipping exploration of real runs",
        "Every sequence of <=3 batches of <=2 fresh designs for n<=3, m<=2, all tolerance assignments, four objective shapes and "
        "min/max is pushed through one real evaluator instance and checked after every batch for every design so far; the gradient "
        "evaluator likewise; EpsMOEA and NSGA-II runs with the worst-case evaluator are explored with every random decision flipped.",
        "One evaluator instance per algorithm; sensitivity to 1e-12 relative, gradient exact.",
        "DESIGN.md section 5 C14")

    reg("C08", "CHOICE", "exploration",
        "exhaustive enumeration of lattice parents x owned draws for the operators; deviation-bounded exploration of real runs",
        "The four variation operators are executed for every lattice parent (bounds, 1 ulp inside, coincident and almost coincident) "
        "with every combination of their random draws taken from an extreme-value list, over 7 boxes incl. tiny/huge/offset ranges; "
        "all generators over the same boxes; and NSGA-II, EpsMOEA, OMOPSO, SMPSO, PSOGA runs in which every draw may deviate "
        "(decision flipped, value at 0 or 1-2^-53, other pick), with every vector reaching the objective checked against the box.",
        "Parents inside the box; widths up to 2e12; run exploration bounded to 1 (thorough 2) deviations per execution.",
        "DESIGN.md section 5 C08")
    reg("C09", "CHOICE", "exploration",
        "deviation-bounded exploration of full runs (decisions, picks and transient failures as choices) + exhaustive acceptance step",
        "Complete NSGA-II / EpsMOEA / OMOPSO / SMPSO runs for N<=4, G<=3 are re-executed with every random decision flipped, every "
        "selection pick changed and every objective call failing transiently, one at a time (thorough: pairs), plus scripted 4-fold "
        "failures of one design; each execution is judged by the bookkeeping oracle (tags, sizes, budget, duplicates, elitism, "
        "monotone best). The eps-MOEA acceptance step is enumerated exhaustively for populations <=3 (thorough 4).",
        "Value draws never deviate (identical designs arise only the realistic way, through suppressed crossover/mutation).",
        "DESIGN.md section 5 C09")
    reg("C18", "CHOICE", "exploration",
        "exhaustive enumeration of cost pairs / value lattices for the swarm primitives; deviation-bounded exploration of swarm runs",
        "update_particle_best over all C01 pair alphabets, update_position and speed_constriction over position/velocity lattices far "
        "outside the box, update_velocity with every combination of extreme draws, and OMOPSO/SMPSO/PSOGA runs with every draw "
        "deviating, inspecting the leader archive after every update_global_best and every personal-best replacement.",
        "Leader dominance judged by the C01 reference relation.",
        "DESIGN.md section 5 C18")

    reg("C10", "BFS", "model_checking",
        "explicit-state BFS over store operation histories on a real file, lockstep reference dict, reopen after every step",
        "All histories of sync_individual / mutate / sync_all to depth 4 (thorough 5) over four individuals (two sharing an id) "
        "carrying signed zeros, denormals, infinities, numpy scalars, references and nested custom data are executed on a real "
        "SqliteDataStore; after every operation the file is reopened by ProblemViewDataStore and compared field by field "
        "(floats by hex) with the last synchronised image; states are de-duplicated on (file rows, mutation counters). One run of "
        "each of the eight synchronising algorithms closes the 'after a run' clause.",
        "Depth-bounded; NaN, integer numpy scalars and string features outside the stated input space.",
        "DESIGN.md section 5 C10")
    reg("C11", "CRASH", "fault_enumeration",
        "process death at every harness event (and, thorough, before every file-mutating syscall), then a recovery oracle",
        "The writer is forked once per crash index and dies by os._exit at every event (objective entry/exit, before/after each "
        "connect, execute, commit) of a serial sweep, an NSGA-II run and a 2-worker sweep under every schedule within the "
        "pre-emption bound (quick: <=1 plus the bound-2 schedules with first-in-first-out overlapping objective calls; thorough: <=2); the thorough tier re-runs the serial histories under strace and SIGKILLs the process before every "
        "pwrite64/unlink/... so death inside a commit is covered. Further histories: transient failures, a foreign lock holder, "
        "gradient children, transactions larger than the page cache, rewrite mode, two studies on one store, leftovers of an earlier "
        "killed run, a moved design. Every corpse is recovered in up to three ways (view at once, view two days later, run resumed "
        "first) and judged, individual by individual.",
        "Process death, not power loss; acknowledgement = the sync call returned.",
        "DESIGN.md section 5 C11, section 3.5")
