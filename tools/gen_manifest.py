#!/venv/bin/python
"""Regenerates /verif/MANIFEST.json from the table below and validates it (kept valid at all times)."""
import json
import os
import sys

VERIF = os.path.dirname(os.path.dirname(os.path.abspath(__file__)))
BASE = "cd /repo && env -u ARTAP_VERIF /venv/bin/python -m pytest -ra -q -p no:cacheprovider --timeout=900 --continue-on-collection-errors"

# id: (engine, category, technique, level text, level note, design ref)
CHECKS = {}


def reg(pid, engine, category, technique, text, note, ref):
    CHECKS[pid] = (engine, category, technique, text, note, ref)


sys.path.insert(0, os.path.dirname(os.path.abspath(__file__)))
from manifest_table import register  # noqa: E402

register(reg)

props = [json.loads(l)["id"] for l in open(os.path.join(VERIF, "properties.jsonl"))]
from manifest_table import NOT_APPLICABLE  # noqa: E402

checks = []
for pid in props:
    if pid not in CHECKS:
        continue
    engine, category, technique, text, note, ref = CHECKS[pid]
    checks.append({
        "property_id": pid,
        "quick_cmd": "./check %s --tier quick" % pid,
        "thorough_cmd": "./check %s --tier thorough" % pid,
        "evidence_file": "/verif/evidence/%s.json" % pid,
        "replay_cmd_template": "./check %s --replay {path}" % pid,
        "engine": engine,
        "level_claimed": {"category": category, "text": text, "design_ref": ref},
        "level_note": note,
        "technique": technique,
    })

na = [{"property_id": p, "reason": NOT_APPLICABLE.get(p, "check not built yet (work in progress)")}
      for p in props if p not in CHECKS]

manifest = {
    "version": 1,
    "setup_cmd": "./setup.sh",
    "hooks": {
        "guard": "ARTAP_VERIF",
        "enable": "none needed: every seam (module-level random/uniform/choice/sample, Parallel/delayed, sqlite3, np in "
                  "artap modules; user Problem subclass; sys.settrace) is patched from outside at run time",
        "baseline_off_cmd": BASE,
        "source_commits": [],
        "add_only": True,
    },
    "engines": [
        {"name": "ENUM", "path": "mc/checks", "kind_free_text": "bounded exhaustive enumeration of inputs / operation sequences against reference oracles on the real code",
         "serves_properties": [p for p, c in CHECKS.items() if c[0] == "ENUM"]},
        {"name": "CHOICE", "path": "mc/core/explorer.py", "kind_free_text": "stateless choice-sequence explorer with deviation bound; owns random draws, faults, hook answers",
         "serves_properties": [p for p, c in CHECKS.items() if c[0] == "CHOICE"]},
        {"name": "BFS", "path": "mc/core/bfs.py", "kind_free_text": "explicit-state search over real objects rebuilt from operation histories, lockstep reference model",
         "serves_properties": [p for p, c in CHECKS.items() if c[0] == "BFS"]},
        {"name": "SCHED", "path": "mc/core/sched.py", "kind_free_text": "controlled cooperative scheduler for worker threads + SQLite proxy; pre-emption-bounded interleaving enumeration",
         "serves_properties": [p for p, c in CHECKS.items() if c[0] == "SCHED"]},
        {"name": "CRASH", "path": "mc/core/crash.py", "kind_free_text": "process death at every harness event / every file-mutating syscall, then recovery oracle",
         "serves_properties": [p for p, c in CHECKS.items() if c[0] == "CRASH"]},
    ],
    "checks": checks,
    "not_applicable": na,
    "notes": "All checks run the current /repo working tree through /venv/bin/python (editable install); "
             "VERIF_SEED selects base random streams only, bounds do not depend on it. See DESIGN.md.",
}

import jsonschema  # noqa: E402
schema_path = "/root/.vp/MANIFEST.schema.json"
if os.path.exists(schema_path):
    jsonschema.validate(manifest, json.load(open(schema_path)))
with open(os.path.join(VERIF, "MANIFEST.json"), "w") as f:
    json.dump(manifest, f, indent=1)
    f.write("\n")
print("MANIFEST.json: %d checks, %d not_applicable" % (len(checks), len(na)))
