#!/venv/bin/python
"""Confirm a sub-agent's breaking change independently and file it under /verif/seeded/<ID><x>/.

  tools/adopt_seeded.py C06 a [--full] [--checks C06,C07]

Steps (all on scratch copies under /dev/shm, never in /repo): demo on the clean copy must exit 0; patch must apply;
demo on the patched copy must exit non-zero; the listed baseline test files (or --full: the whole suite) must pass on
the patched copy; then the property's check (quick tier) is run against the patched copy and the verdict recorded.
"""
import argparse
import json
import os
import shutil
import subprocess
import sys
import tempfile

VERIF = os.path.dirname(os.path.dirname(os.path.abspath(__file__)))
TESTS = {
    'C01': 'test_operators.py,test_archive.py,test_problem_nsga2.py', 'C02': 'test_operators.py,test_problem_nsga2.py',
    'C03': 'test_operators.py,test_problem_nsga2.py,test_problem_epsmoea.py', 'C04': 'test_archive.py,test_problem_epsmoea.py,test_swarm.py',
    'C05': 'test_job.py,test_algorithm.py,test_problem_scipy.py,test_problem_nlopt.py', 'C06': 'test_calculation_fails.py,test_job.py,test_algorithm.py',
    'C07': 'test_algorithm.py,test_datastore.py,test_job.py', 'C08': 'test_operators.py,test_swarm.py,test_generators.py,test_problem_swarm.py',
    'C09': 'test_problem_nsga2.py,test_problem_epsmoea.py,test_problem_swarm.py,test_operators.py', 'C10': 'test_datastore.py,test_results.py',
    'C11': 'test_datastore.py,test_algorithm.py', 'C12': 'test_generators.py', 'C13': 'test_generators.py',
    'C14': 'test_robust.py,test_gradients.py', 'C15': 'test_benchmarks.py,test_benchmark_robust.py', 'C16': 'test_benchmark_pareto.py',
    'C17': 'test_results.py,test_quality_indicator.py', 'C18': 'test_swarm.py,test_problem_swarm.py',
    'C19': 'test_surrogate_eval.py,test_surrogate_scikit.py,test_surrogate_function.py', 'C20': 'test_operators.py,test_problem_nsga2.py,test_archive.py',
}


def sh(cmd, cwd=None, env=None, timeout=1800):
    r = subprocess.run(cmd, cwd=cwd, env=env, capture_output=True, text=True, timeout=timeout)
    return r.returncode, r.stdout, r.stderr


def main():
    ap = argparse.ArgumentParser()
    ap.add_argument("pid")
    ap.add_argument("which")
    ap.add_argument("--full", action="store_true")
    ap.add_argument("--checks", default="")
    ap.add_argument("--src", default="/tmp/wt/out")
    ap.add_argument("--as", dest="as_name", default=None, help="suffix under which the change is filed (default: same letter)")
    a = ap.parse_args()
    src = os.path.join(a.src, a.pid)
    patch = os.path.join(src, "patch_%s.diff" % a.which)
    demo = os.path.join(src, "demo_%s.py" % a.which)
    meta_in = {}
    try:
        meta_in = json.load(open(os.path.join(src, "meta.json"))).get(a.which, {})
    except Exception:
        pass
    work = tempfile.mkdtemp(prefix="adopt-", dir="/dev/shm")
    env = dict(os.environ, PYTHONDONTWRITEBYTECODE="1")
    ran = []
    ok = True
    try:
        clean, mut = os.path.join(work, "clean"), os.path.join(work, "mut")
        for d in (clean, mut):
            os.makedirs(d)
            shutil.copytree("/repo/artap", os.path.join(d, "artap"), ignore=shutil.ignore_patterns("__pycache__"))
        rc, o, e = sh(["patch", "-p1", "-s", "-i", patch], cwd=mut)
        ran.append("patch -p1 < patch.diff on a scratch copy: rc=%d" % rc)
        if rc != 0:
            print("patch does not apply:", o, e)
            return 2
        text = open(demo).read()
        for d, name, want_zero in ((clean, "clean", True), (mut, "patched", False)):
            dp = os.path.join(work, "demo_%s.py" % name)
            wt_root = os.path.join(os.path.dirname(os.path.abspath(a.src)), a.pid)     # the sub-agent's worktree path
            open(dp, "w").write(text.replace(os.path.realpath(src).rsplit("/out", 1)[0], d).replace(wt_root, d))
            rc, o, e = sh(["/venv/bin/python", dp], cwd=d, env=dict(env, PYTHONPATH=d), timeout=900)
            ran.append("demo on the %s copy: exit %d" % (name, rc))
            print("demo on %s copy: exit %d" % (name, rc))
            if (rc == 0) != want_zero:
                ok = False
                print((o + e)[-800:])
        files = ["artap/tests"] if a.full else ["artap/tests/" + t for t in TESTS[a.pid].split(",")]
        rc, o, e = sh(["/venv/bin/python", "-m", "pytest", "-q", "-p", "no:cacheprovider", "--timeout=900"] + files, cwd=mut, env=env, timeout=3000)
        summary = [l for l in o.splitlines() if " passed" in l or " failed" in l][-1:]
        stable = set(json.load(open("/root/.vp/BASELINE.json"))["stable_pass"])

        def is_stable(line):     # "FAILED artap/tests/test_x.py::Class::test - msg" -> artap.tests.test_x.Class::test
            t = line.split()[1]
            mod, _, rest = t.partition("::")
            return (mod[:-3].replace("/", ".") + "." + rest) in stable
        failed = [l for l in o.splitlines() if l.startswith("FAILED") and is_stable(l)]
        # stochastic baseline tests (e.g. test_surrogate_function) fail now and then on the unchanged tree as well:
        # a failing stable test is re-run up to three times and counts as passing if it passes once
        still = []
        for l in failed:
            tid = l.split()[1]
            for attempt in range(3):
                rc2, o2, e2 = sh(["/venv/bin/python", "-m", "pytest", "-q", "-p", "no:cacheprovider", tid], cwd=mut, env=env, timeout=3000)
                if rc2 == 0:
                    ran.append("re-run of %s on the patched copy passed (attempt %d): stochastic test" % (tid, attempt + 1))
                    break
            else:
                still.append(l)
        failed = still
        ran.append("pytest %s on the patched copy: %s; failures among the 186 stable baseline tests: %d" % (" ".join(files), summary, len(failed)))
        print("tests:", summary, "unexpected failures:", failed)
        if failed:
            ok = False
        verdicts = {}
        for cid in (a.checks.split(",") if a.checks else [a.pid]):
            env2 = dict(env, PYTHONPATH=mut, ARTAP_VERIF_EXPECT_REPO=mut, VERIF_OUT=os.path.join(work, "out"))
            rc, o, e = sh([os.path.join(VERIF, "check"), cid, "--tier", "quick"], cwd=VERIF, env=env2, timeout=3000)
            viol = [l for l in o.splitlines() if l.startswith("violation key=")]
            verdicts[cid] = {"exit": rc, "first_violation": viol[0][:300] if viol else None}
            ran.append("./check %s --tier quick against the patched copy: exit %d" % (cid, rc))
            print(cid, "exit", rc, viol[0][:200] if viol else o.strip().splitlines()[-1:] )
        if not ok:
            print("NOT ADOPTED (confirmation failed)")
            return 1
        dest = os.path.join(VERIF, "seeded", "%s%s" % (a.pid, a.as_name or a.which))
        os.makedirs(dest, exist_ok=True)
        shutil.copy(patch, os.path.join(dest, "patch.diff"))
        open(os.path.join(dest, "demo.py"), "w").write(text)
        json.dump({"property": a.pid, "source": "independent sub-agent given only the property text",
                   "summary": meta_in.get("summary"), "needs_to_manifest": meta_in.get("needs_to_manifest"),
                   "files": meta_in.get("files"), "confirmed_by": ran, "check_verdicts_when_adopted": verdicts},
                  open(os.path.join(dest, "meta.json"), "w"), indent=1)
        print("adopted ->", dest)
        return 0
    finally:
        shutil.rmtree(work, ignore_errors=True)


if __name__ == "__main__":
    sys.exit(main())
