#!/venv/bin/python
"""Apply a patch to a scratch copy of /repo (never to /repo itself), optionally run baseline test files there, then run
the given checks against the copy. Prints one line per check: DETECTED / missed.

  tools/mutant_test.py PATCH [--tests test_a.py,test_b.py] [--tier quick] CHECK_ID [CHECK_ID ...]
"""
import argparse
import os
import shutil
import subprocess
import sys
import tempfile

VERIF = os.path.dirname(os.path.dirname(os.path.abspath(__file__)))


def main():
    ap = argparse.ArgumentParser()
    ap.add_argument("patch")
    ap.add_argument("checks", nargs="+")
    ap.add_argument("--tests", default="")
    ap.add_argument("--tier", default="quick")
    ap.add_argument("--keep", action="store_true")
    ap.add_argument("--verbose", action="store_true")
    a = ap.parse_args()
    base = "/dev/shm" if os.path.isdir("/dev/shm") else tempfile.gettempdir()
    work = tempfile.mkdtemp(prefix="mutant-", dir=base)
    rc_all = 0
    try:
        copy = os.path.join(work, "repo")
        os.makedirs(copy)
        shutil.copytree("/repo/artap", os.path.join(copy, "artap"), ignore=shutil.ignore_patterns("__pycache__"))
        r = subprocess.run(["patch", "-p1", "-s", "-i", os.path.abspath(a.patch)], cwd=copy, capture_output=True, text=True)
        if r.returncode != 0:
            print("PATCH-FAILED", a.patch, r.stdout[-300:], r.stderr[-300:])
            return 2
        env = dict(os.environ, PYTHONDONTWRITEBYTECODE="1")
        if a.tests:
            files = ["artap/tests/" + t for t in a.tests.split(",") if t]
            t = subprocess.run(["/venv/bin/python", "-m", "pytest", "-q", "-p", "no:cacheprovider", "-x"] + files,
                               cwd=copy, env=env, capture_output=True, text=True)
            tail = [l for l in t.stdout.splitlines() if "passed" in l or "failed" in l][-1:]
            print("baseline-tests:", "PASS" if t.returncode == 0 else "FAIL", tail)
        env["PYTHONPATH"] = copy
        env["ARTAP_VERIF_EXPECT_REPO"] = copy
        env["VERIF_OUT"] = os.path.join(work, "out")
        for cid in a.checks:
            import signal
            import types
            pr = subprocess.Popen([os.path.join(VERIF, "check"), cid, "--tier", a.tier], cwd=VERIF, env=env, stdout=subprocess.PIPE,
                                  stderr=subprocess.PIPE, text=True, start_new_session=True)
            try:
                so, se = pr.communicate(timeout=int(os.environ.get("MUTANT_TIMEOUT", "1500")))
            except subprocess.TimeoutExpired:
                os.killpg(pr.pid, signal.SIGKILL)
                pr.communicate()
                print("%s TIMEOUT (the check did not terminate on the mutated code)" % cid)
                rc_all = 1
                continue
            r = types.SimpleNamespace(returncode=pr.returncode, stdout=so, stderr=se)
            viol = [l for l in r.stdout.splitlines() if l.startswith("violation key=")]
            status = {0: "missed", 1: "DETECTED", 2: "CHECK-BROKEN"}.get(r.returncode, "rc=%d" % r.returncode)
            print("%s %s %s" % (cid, status, (viol[0][:230] if viol else r.stdout.strip().splitlines()[-1][:230] if r.stdout.strip() else r.stderr[-200:])))
            if a.verbose:
                print(r.stdout[-3000:])
            if r.returncode != 1:
                rc_all = 1
    finally:
        if not a.keep:
            shutil.rmtree(work, ignore_errors=True)
    return rc_all


if __name__ == "__main__":
    sys.exit(main())
