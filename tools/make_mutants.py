#!/venv/bin/python
"""Builds /verif/mutants/*.diff from the table below (string replacement on the CURRENT /repo sources, never written to /repo).

Each entry: name (prefix = property it is meant to break), file, old, new. Run tools/selftest.py afterwards.
"""
import difflib
import os
import sys

VERIF = os.path.dirname(os.path.dirname(os.path.abspath(__file__)))
OUT = os.path.join(VERIF, "mutants")

M = []


def m(name, file, old, new, count=1):
    M.append((name, file, old, new, count))


OPS = "artap/operators.py"
# Equivalent (property-preserving) mutants that were tried and dropped, for the record: a re-arranged early exit in
# ParetoDominance; the redundant `front_number is None` guard in the sorter; dropping NSGA-II's final sync_all (every
# individual is already re-synchronised after tagging); an extra early sync before the objective (a complete image of an
# unevaluated individual); LHS columns sharing one set of stratified points; Booth/Griewank/Six-hump perturbations that keep
# the optimum; a coarser __hash__ (collisions are allowed, equality decides).
# ---- C01
m("c01_pareto_strict_to_nonstrict", OPS, "        for (p_costs, q_costs) in zip(p[:-1], q[:-1]):\n            if p_costs > q_costs:",
  "        for (p_costs, q_costs) in zip(p[:-1], q[:-1]):\n            if p_costs >= q_costs:")
m("c01_pareto_feasible_branch_swapped", OPS, "            elif q[-1] == 0:\n                return 2  # q is dominates, because it has smaller degree in constraint violation\n            elif abs(p[-1]) < abs(q[-1]):\n                return 1  # p is dominates\n            elif abs(q[-1]) < abs(p[-1]):\n                return 2  # q is dominates\n\n        dominate_p = False",
  "            elif q[-1] == 0:\n                return 1  # q is dominates, because it has smaller degree in constraint violation\n            elif abs(p[-1]) < abs(q[-1]):\n                return 1  # p is dominates\n            elif abs(q[-1]) < abs(p[-1]):\n                return 2  # q is dominates\n\n        dominate_p = False")
m("c01_eps_tiebreak_returns_zero", OPS, "            if dist1 < dist2:\n                return 1\n            else:\n                return 2", "            if dist1 < dist2:\n                return 1\n            elif dist2 < dist1:\n                return 2\n            else:\n                return 0")
m("c01_eps_wrong_index", OPS, "            epsilon = float(self.epsilons[i % len(self.epsilons)])\n            if epsilon == 0:\n                epsilon = 1e-3\n\n            p_eps = p_costs / epsilon\n            q_eps = q_costs / epsilon",
  "            epsilon = float(self.epsilons[i % len(self.epsilons)])\n            if epsilon == 0:\n                epsilon = 1e-3\n\n            p_eps = math.floor(p_costs / epsilon)\n            q_eps = math.floor(q_costs / epsilon)")
# ---- C02
m("c02_inner_loop_from_i", OPS, "            for j in range(i + 1, len(individuals)):\n                q = individuals[j]\n                dom = self.comparator.compare(p.costs_signed, q.costs_signed)",
  "            for j in range(i + 2, len(individuals)):\n                q = individuals[j]\n                dom = self.comparator.compare(p.costs_signed, q.costs_signed)")
m("c02_decrement_wrong_individual", OPS, "                    q = self.individual(individuals, individual_id)\n                    q.features['domination_counter'] -= 1", "                    q = self.individual(individuals, individual_id)\n                    q.features['domination_counter'] -= len(p.features['dominate'])")
# ---- C03
m("c03_crowding_cmp_reversed", OPS, "        if -p.features['crowding_distance'] < -q.features['crowding_distance']:\n            return -1\n        elif -p.features['crowding_distance'] > -q.features['crowding_distance']:\n            return 1",
  "        if p.features['crowding_distance'] < q.features['crowding_distance']:\n            return -1\n        elif p.features['crowding_distance'] > q.features['crowding_distance']:\n            return 1")
m("c03_truncate_no_dedup", OPS, "    population = list(set(population))\n", "    population = list(population)\n")
m("c03_crowding_one_boundary", OPS, "        front[0].features['crowding_distance'] = math.inf\n        front[-1].features['crowding_distance'] = math.inf\n        max_distance", "        front[0].features['crowding_distance'] = math.inf\n        max_distance")
m("c03_crowding_wrong_range", OPS, "        max_distance = front[-1].costs_signed[dim] - front[0].costs_signed[dim]", "        max_distance = front[-1].costs_signed[dim] - front[1].costs_signed[dim]")
m("c03_tournament_returns_loser_on_dominance", OPS, "            if flag == 1:\n                selected = candidates[0]\n            elif flag == 2:\n                selected = candidates[1]\n            else:\n                selected = random.choice(candidates)",
  "            if flag == 1:\n                selected = candidates[1]\n            elif flag == 2:\n                selected = candidates[0]\n            else:\n                selected = random.choice(candidates)")
m("c03_truncate_slice_off_by_one", OPS, "    return result[:size]\n", "    return result[:size] if len(result) <= size + 1 else result[:size - 1] + result[size:size + 1]\n")
# ---- C04
ARC = "artap/archive.py"
m("c04_index_correction_dropped", ARC, "                    del self._contents[index - number_of_deleted_solutions]", "                    del self._contents[index]")
m("c04_duplicate_test_identity", ARC, "                    if individual.costs_signed == current_solution.costs_signed:", "                    if individual.costs_signed is current_solution.costs_signed:")
m("c04_true_on_reject", ARC, "            self._contents.append(individual)\n            return True\n\n        return False", "            self._contents.append(individual)\n            return True\n\n        return not is_contained")
m("c04_truncate_ascending", ARC, "        if larger_preferred:\n            result.reverse()", "        if not larger_preferred:\n            result.reverse()")
m("c04_break_after_first_eviction", ARC, "                    number_of_deleted_solutions += 1\n", "                    number_of_deleted_solutions += 1\n                    break\n")
# ---- C05
JOB = "artap/job.py"
m("c05_state_test_dropped_in_job", JOB, "        if individual.state == individual.State.EVALUATED:\n            return\n", "")
m("c05_scalar_returns_unsigned", OPS, "        self.job.evaluate(individual)\n        return individual.costs_signed[0]", "        self.job.evaluate(individual)\n        return individual.costs[0]")
m("c05_marker_inverted", "artap/individual.py", "        self.costs_signed.append(not self.features[\"feasible\"])", "        self.costs_signed.append(bool(self.features[\"feasible\"]))")
m("c05_round_hardcoded", "artap/individual.py", "x * np.round(y, decimals=self.features[\"precision\"])", "x * np.round(y, decimals=7)")
m("c05_constraint_le_zero", JOB, "all(v < eps for (v) in constraints)", "all(v <= eps for (v) in constraints)")
m("c05_serial_skips_nothing", OPS, "            if individual.state == individual.State.EMPTY:\n                individual.costs.append(self.job.evaluate(individual))", "            self.job.evaluate(individual)\n            individual.costs.append(None)")
m("c05_sweep_dedups", "artap/algorithm_sweep.py", "        vectors = self.generator.generate()\n", "        vectors = self.generator.generate()\n        vectors = [list(v) for v in dict.fromkeys(tuple(v) for v in vectors)]\n")
# ---- C06
m("c06_range_4", JOB, "        for i in range(5):", "        for i in range(4):")
m("c06_range_6", JOB, "        for i in range(5):", "        for i in range(6):")
m("c06_failed_logged_after_reroll", JOB, "                failed_individual = Individual(individual.vector)\n                failed_individual.state = individual.State.FAILED\n                individual.features[\"feasible\"] = False  # TODO: genetic algorithms uses this information, i dont know the correct solution\n                self.problem.failed.append(failed_individual)\n                # in the case of failure generate new random individual\n                # TODO: create different strategies\n                individual.vector = VectorAndNumbers.gen_vector(self.problem.parameters)\n",
  "                individual.features[\"feasible\"] = False  # TODO: genetic algorithms uses this information, i dont know the correct solution\n                # in the case of failure generate new random individual\n                # TODO: create different strategies\n                individual.vector = VectorAndNumbers.gen_vector(self.problem.parameters)\n                failed_individual = Individual(individual.vector)\n                failed_individual.state = individual.State.FAILED\n                self.problem.failed.append(failed_individual)\n")
m("c06_except_exception_swallows", JOB, "            except (TimeoutError, RuntimeError) as e:", "            except (TimeoutError, RuntimeError, ArithmeticError, ValueError) as e:")
m("c06_state_set_before_objective", JOB, "            # set in progress\n            individual.state = individual.State.IN_PROGRESS\n", "            # set in progress\n            individual.state = individual.State.EVALUATED\n")
# ---- C07
m("c07_sync_before_state", JOB, "                # set evaluated\n                individual.state = individual.State.EVALUATED\n                # info\n                individual.features[\"finish_time\"] = time.time()\n                # write to store\n                self.problem.data_store.sync_individual(individual)\n",
  "                # write to store\n                self.problem.data_store.sync_individual(individual)\n                # set evaluated\n                individual.state = individual.State.EVALUATED\n                # info\n                individual.features[\"finish_time\"] = time.time()\n")
DS = "artap/datastore.py"
m("c07_retry_on_operationalerror_removed", DS, "            except sqlite3.OperationalError as e:\n                # try again\n                self.sync_individual(individual)", "            except sqlite3.OperationalError as e:\n                print(e)")
m("c07_shared_scratch_individual", JOB, "                costs = self.problem.surrogate.evaluate(individual)\n                individual.costs = costs", "                self.current = individual\n                costs = self.problem.surrogate.evaluate(individual)\n                self.current.costs = costs")
# ---- C08
m("c08_pm_no_clip", OPS, "        x = x + deltaq * dx\n        x = self.clip(x, lb, ub)\n", "        x = x + deltaq * dx\n")
m("c08_sbx_clip_only_c1", OPS, "                        c1 = self.clip(c1, lb, ub)\n                        c2 = self.clip(c2, lb, ub)\n", "                        c1 = self.clip(c1, lb, ub)\n")
m("c08_uniform_mutation_no_clip", OPS, "        x = x + (random.random() - 0.5) * self.perturbation\n        x = self.clip(x, lb, ub)\n", "        x = x + (random.random() - 0.5) * self.perturbation\n")
SW = "artap/algorithm_swarm.py"
m("c08_smpso_lower_reset_dropped", SW, "                # adjust minimum position if necessary\n                if individual.vector[i] < parameter['bounds'][0]:\n                    individual.vector[i] = parameter['bounds'][0]\n                    individual.features['velocity'][i] *= 0.001",
  "                # adjust minimum position if necessary\n                if individual.vector[i] < parameter['bounds'][0]:\n                    individual.features['velocity'][i] *= 0.001")
m("c08_gen_number_wrong_grid", "artap/utils.py", "            number = round(number / precision) * precision", "            number = math.ceil(number / precision) * precision + precision")
# ---- C09
NS = "artap/algorithm_NSGAII.py"
m("c09_nsga_range_g", NS, "        for it in range(self.options['max_population_number']-1):", "        for it in range(self.options['max_population_number']):")
m("c09_nsga_truncate_n_plus_1", NS, "            individuals = nondominated_truncate(offsprings, self.options['max_population_size'])", "            individuals = nondominated_truncate(offsprings, self.options['max_population_size'] + 1)")
m("c09_nsga_sort_only_offspring", NS, "            for individual in individuals:\n                offsprings.append(individual.copy())\n\n            # make the pareto", "            # make the pareto")
m("c09_generate_stops_early", "artap/algorithm_genetic.py", "        while len(offsprings) < self.options['max_population_size']:", "        while len(offsprings) < self.options['max_population_size'] - 1:")
m("c09_acceptance_removes_nondominated", OPS, "        if len(dominates) > 0:\n            del individuals[random.choice(dominates)]", "        if len(dominates) > 0:\n            del individuals[random.choice(range(len(individuals)))]")
m("c09_omopso_tag_it", SW, "                individual.population_id = it + 1\n                # append to problem\n                self.problem.individuals.append(individual)\n                # sync to datastore\n                self.problem.data_store.sync_individual(individual)\n\n            it += 1\n\n        t = time.time() - t_s\n        self.problem.logger.info(\"PSO: elapsed time: {} s\".format(t))\n\n        # sync changed individual informations\n        self.problem.data_store.sync_all()\n\n\nclass SMPSO",
  "                individual.population_id = it + 2\n                # append to problem\n                self.problem.individuals.append(individual)\n                # sync to datastore\n                self.problem.data_store.sync_individual(individual)\n\n            it += 1\n\n        t = time.time() - t_s\n        self.problem.logger.info(\"PSO: elapsed time: {} s\".format(t))\n\n        # sync changed individual informations\n        self.problem.data_store.sync_all()\n\n\nclass SMPSO")
# ---- C10
m("c10_upsert_do_nothing", DS, "ON CONFLICT(id) DO UPDATE SET individual=excluded.individual;", "ON CONFLICT(id) DO NOTHING;")
m("c10_vector_rounded", "artap/individual.py", "                  'vector': list(self.vector),", "                  'vector': [float('%.15g' % v) for v in self.vector],")
m("c10_features_filtered", "artap/individual.py", "        for key, value in self.features.items():\n            features[key] = self._replace_individual_id(value)", "        for key, value in self.features.items():\n            if value is None or value == []:\n                continue\n            features[key] = self._replace_individual_id(value)")
m("c10_custom_ids_replaced", "artap/individual.py", "                  'custom': self.custom,", "                  'custom': self._replace_individual_id(self.custom) if self.custom else self.custom,")
m("c10_nsga_never_resyncs", NS, "                self.problem.individuals.append(individual)\n                self.problem.data_store.sync_individual(individual)\n\n\n        t = time.time() - t_s\n        self.problem.logger.info(\"NSGA_II: elapsed time: {} s\".format(t))\n\n        # sync changed individual informations\n        self.problem.data_store.sync_all()",
  "                self.problem.individuals.append(individual)\n\n\n        t = time.time() - t_s\n        self.problem.logger.info(\"NSGA_II: elapsed time: {} s\".format(t))")
# ---- C11
m("c11_commit_every_second_sync", DS, "                c.execute(self.sql_individuals_upsert, [individual.id, json.dumps(individual.to_dict())])\n                conn.commit()\n            except", "                c.execute(self.sql_individuals_upsert, [individual.id, json.dumps(individual.to_dict())])\n                if individual.id % 2 == 0:\n                    conn.commit()\n            except")
m("c11_journal_off_threadsafe", DS, "                    c.execute('PRAGMA journal_mode = ON')", "                    c.execute('PRAGMA journal_mode = OFF')")
m("c11_upsert_as_delete_insert", DS, "                c.execute(self.sql_individuals_upsert, [individual.id, json.dumps(individual.to_dict())])\n                conn.commit()\n            except",
  "                c.execute('DELETE FROM individuals WHERE id=?', [individual.id])\n                conn.commit()\n                c.execute('INSERT INTO individuals (id, individual) VALUES(?,?)', [individual.id, json.dumps(individual.to_dict())])\n                conn.commit()\n            except")
# ---- C12
DOE = "artap/doe.py"
m("c12_halton_burnin_kept", DOE, "    sample = np.stack(sample, axis=-1)[1:]", "    sample = np.stack(sample, axis=-1)[:-1]")
m("c12_lhs_cut_points", DOE, "def _lhsclassic(n, samples, randomstate):\n    # Generate the intervals\n    cut = np.linspace(0, 1, samples + 1)\n", "def _lhsclassic(n, samples, randomstate):\n    # Generate the intervals\n    cut = np.linspace(0, 1, samples + 1) ** 1.0000001\n")
m("c12_grid_delta_number", OPS, "            delta = (parameter['bounds'][1] - parameter['bounds'][0]) / (self.number - 1)", "            delta = (parameter['bounds'][1] - parameter['bounds'][0]) / self.number")
m("c12_random_count", OPS, "        vectors = []\n        for i in range(self.number):\n            vector = VectorAndNumbers.gen_vector(self.parameters)\n            vectors.append(vector)\n        return vectors\n\n\nclass IntegerGenerator", "        vectors = []\n        for i in range(max(self.number, 1)):\n            vector = VectorAndNumbers.gen_vector(self.parameters)\n            vectors.append(vector)\n        return vectors\n\n\nclass IntegerGenerator")
m("c12_halton_prime_slice", DOE, "        base = _primes_from_2_to(big_number)[:dimension]\n        if len(base) == dimension:\n            break\n        big_number += 1000", "        base = _primes_from_2_to(big_number)[-dimension:]\n        if len(base) == dimension:\n            break\n        big_number += 1000")
# ---- C13
m("c13_pb_toeplitz_typo", DOE, "toeplitz([-1, -1, 1, -1, -1, -1, 1, 1, 1, -1, 1],", "toeplitz([-1, -1, 1, -1, -1, 1, 1, 1, 1, -1, 1],")
m("c13_pb_keep_slice", DOE, "    H = H[:, 1:(keep + 1)]", "    H = H[:, 0:keep]")
m("c13_bb_center_repeated", DOE, "    x = bbdesign(factor_count, center=1)\n    x = x + 1  # Adjusting the index up by 1\n\n    df = construct_df(x, factor_lists)\n\n    return df\n\n\n# Function for building central", "    x = bbdesign(factor_count, center=2)\n    x = x + 1  # Adjusting the index up by 1\n\n    df = construct_df(x, factor_lists)\n\n    return df\n\n\n# Function for building central")
m("c13_gsd_partition_bound", DOE, "                if index <= num_levels:\n                    part.append(index)", "                if index < num_levels:\n                    part.append(index)")
m("c13_gsd_latin_roll", DOE, "    latin_square = np.vstack([np.roll(numbers, -i) for i in range(n)])", "    latin_square = np.vstack([np.roll(numbers, -i) for i in range(n - 1)] + [np.roll(numbers, -(n - 2))])")
m("c13_fullfact_level_repeat", DOE, "        level_repeat *= levels[i]\n        H[:, i] = rng", "        level_repeat *= max(levels[i], 2)\n        H[:, i] = rng[:nb_lines] if len(rng) >= nb_lines else (rng * nb_lines)[:nb_lines]")
# ---- C14
m("c14_worst_append_test_ge", OPS, "            if len(individual.costs) > self.n:", "            if len(individual.costs) >= self.n - 1:")
m("c14_worst_tol_wrong_axis", OPS, "            parameter = parameters[i]\n            for sign in [-1, 1]:", "            parameter = parameters[0]\n            for sign in [-1, 1]:")
m("c14_gradient_central_difference", OPS, "                gradient[i] = ((child.costs[0] - individual.costs[0]) / self.delta)", "                gradient[i] = ((child.costs[0] - individual.costs[0]) / (2 * self.delta))")
m("c14_gradient_lists_not_cleared", OPS, "            #     individual.costs_signed.insert(-1, sensitivity)\n\n        self.individuals = []\n        self.to_evaluate = []", "            #     individual.costs_signed.insert(-1, sensitivity)\n\n        self.individuals = []")
m("c14_worst_lists_not_cleared", OPS, "                individual.costs_signed.insert(-1, sum(sensitivity))\n\n        self.individuals = []\n        self.to_evaluate = []", "                individual.costs_signed.insert(-1, sum(sensitivity))")
# ---- C15
BF = "artap/benchmark_functions.py"
m("c15_rastrigin_constant", BF, "            fitness += c ** 2 - (10 * np.cos(2 * np.pi * c))", "            fitness += c ** 2 - (10 * np.cos(2 * np.pi * c)) - 5.0 * abs(c)")
m("c15_booth_sign", BF, "        return [(x[0] + 2 * x[1] - 7) ** 2 + (2 * x[0] + x[1] - 5) ** 2]", "        return [(x[0] + 2 * x[1] - 7) ** 2 + (2 * x[0] + x[1] - 5) ** 2 - 3.0 * (x[0] - 1) ** 2]")
m("c15_ackley_python_float_crash", BF, "        n = float(len(x))\n        return [-20.0 * np.exp(-0.2 * np.sqrt(firstSum / n))", "        n = float(len(x))\n        firstSum = firstSum.clip(0)\n        return [-20.0 * np.exp(-0.2 * np.sqrt(firstSum / n))")
m("c15_sixhump_exponent", BF, "x[0] ** 4 / 3.) * x[0] ** 2", "x[0] ** 4 / 4.5) * x[0] ** 2")
# ---- C16
BP = "artap/benchmark_pareto.py"
m("c16_dtlz2_sin_cos_swapped_last", BP, "                fi *= sin(x[m - i - 1] * pi / 2.)\n            gm = 0.\n", "                fi *= sin(x[m - i - 1] * pi / 2.) if i < 3 else cos(x[m - i - 1] * pi / 2.)\n            gm = 0.\n")
m("c16_dtlz1_half_missing", BP, "        factor = 0.5 * (1 + g)", "        factor = 0.5 * (1 + g) if k > 1 else (1 + g)")
m("c16_dtlz3_g_slice", BP, "            gm = float(k)\n            for i in range(0, k):\n                gm += (x[len(x) - i - 1] - 0.5) ** 2. - cos(", "            gm = float(k)\n            for i in range(1, k):\n                gm += (x[len(x) - i - 1] - 0.5) ** 2. - cos(")
m("c16_zdt1_g_includes_x0", BP, "        g = sum(x.vector) - x.vector[0]\n", "        g = sum(x.vector) - x.vector[1]\n")
# ---- C17
RES = "artap/results.py"
m("c17_find_optimum_minmax", RES, "                min_l = [max(self.problem.individuals, key=lambda x: x.costs[index])]", "                min_l = [max(self.problem.individuals[-len(self.problem.last_population()):], key=lambda x: x.costs[index])]")
m("c17_sort_list_returns_keys", RES, "        sorted_list = [x for _, x in sorted(zipped_pairs)]", "        sorted_list = [x for x, _ in sorted(zipped_pairs)]")
m("c17_default_population_first", "artap/problem.py", "            if individual.population_id > max_index:\n                max_index = individual.population_id", "            if individual.population_id >= max_index:\n                max_index = individual.population_id\n                break")
m("c17_gd_wrong_axis", "artap/quality_indicator.py", "    minimums = np.nanmin(distances, axis=0)\n\n    return np.sum(minimums) / len(computed)", "    minimums = np.nanmin(distances, axis=1)\n\n    return np.sum(minimums) / len(minimums)")
m("c17_eps_init_neg_inf", "artap/quality_indicator.py", "    eps = 0.0\n    for ref_val in reference:", "    eps = -np.inf\n    for ref_val in reference:")
m("c17_goal_on_parameter_sort_breaks_pairs", RES, "            goal_values = self.sort_list(parameter_values, goal_values)\n            parameter_values.sort()", "            goal_values.sort()\n            parameter_values.sort()")
# ---- C18
m("c18_pbest_flag_eq_1", SW, "            if flag != 2:\n                particle.features['best_cost'] = particle.costs_signed", "            if flag == 1:\n                particle.features['best_cost'] = particle.costs_signed")
m("c18_clamp_full_range", SW, "        delta_i = (u_bound - l_bound) / 2.", "        delta_i = (u_bound - l_bound)")
m("c18_omopso_lower_velocity_not_reversed", SW, "                # adjust minimum position if necessary\n                if individual.vector[i] < parameter['bounds'][0]:\n                    individual.vector[i] = parameter['bounds'][0]\n                    individual.features['velocity'][i] *= -1\n\n    def update_global_best(self, swarm):\n        \"\"\" Manages the leader class in OMOPSO. \"\"\"\n\n        # the fitness of the particles are calculated by their crowding distance\n\n        # crowding_distance(swarm)",
  "                # adjust minimum position if necessary\n                if individual.vector[i] < parameter['bounds'][0]:\n                    individual.vector[i] = parameter['bounds'][0]\n\n    def update_global_best(self, swarm):\n        \"\"\" Manages the leader class in OMOPSO. \"\"\"\n\n        # the fitness of the particles are calculated by their crowding distance\n\n        # crowding_distance(swarm)")
m("c18_smpso_truncate_n_plus_1", SW, "        # the length of the leaders archive cannot be longer than the number of the initial population\n        self.leaders += swarm\n        self.leaders.truncate(self.options['max_population_size'], 'crowding_distance')", "        # the length of the leaders archive cannot be longer than the number of the initial population\n        self.leaders += swarm\n        self.leaders.truncate(self.options['max_population_size'] + 1, 'crowding_distance')")
m("c18_smpso_damping_factor", SW, "                    individual.vector[i] = parameter['bounds'][1]\n                    individual.features['velocity'][i] *= 0.001", "                    individual.vector[i] = parameter['bounds'][1]\n                    individual.features['velocity'][i] *= -1")
# ---- C19
SUR = "artap/surrogate.py"
m("c19_counter_on_wrong_branch", SUR, "            if values is not None:\n                # count prediction\n                self.problem.surrogate.predict_counter += 1", "            # count prediction\n            self.problem.surrogate.predict_counter += 1")
m("c19_train_mod_eq_1", SUR, "            if self.eval_counter % self.train_step == 0:", "            if self.eval_counter % self.train_step == 1 % self.train_step:")
m("c19_data_appended_twice_when_training", SUR, "                # train model\n                self.train()\n        return value", "                # train model\n                self.add_data(individual.vector, value)\n                self.train()\n        return value")
m("c19_predict_while_untrained", SUR, "        if self.trained and \"predict\" in dir(self.problem):", "        if (self.trained or self.eval_counter > 2) and \"predict\" in dir(self.problem):")
m("c19_eval_counter_double", SUR, "    def evaluate(self, individual):\n        self.eval_counter += 1\n        return self.problem.evaluate(individual)", "    def evaluate(self, individual):\n        self.eval_counter += 1 if self.eval_counter % 7 else 2\n        return self.problem.evaluate(individual)")
m("c19_train_when_step_minus_1", SUR, "        if self.train_step != -1:\n            if", "        if self.train_step != 0:\n            if")
# ---- C20
IND = "artap/individual.py"
m("c20_eq_sum", IND, "        for i in range(len(self.vector)):\n            if not abs(self.vector[i] - other.vector[i]) < 1e-10:\n                return False\n        return True", "        return abs(sum(self.vector) - sum(other.vector)) < 1e-10")
m("c20_eq_first_coordinate_skipped", IND, "        for i in range(len(self.vector)):\n            if not abs(self.vector[i] - other.vector[i]) < 1e-10:", "        for i in range(1, len(self.vector)):\n            if not abs(self.vector[i] - other.vector[i]) < 1e-10:")
m("c20_hash_id", IND, "        return hash(tuple(self.vector))", "        return hash(self.id)")


def main():
    os.makedirs(OUT, exist_ok=True)
    bad = 0
    for name, file, old, new, count in M:
        src = open(os.path.join("/repo", file)).read()
        if src.count(old) != count:
            print("SKIP %s: pattern found %d times in %s" % (name, src.count(old), file))
            bad += 1
            continue
        dst = src.replace(old, new)
        diff = difflib.unified_diff(src.splitlines(True), dst.splitlines(True), "a/" + file, "b/" + file, n=3)
        with open(os.path.join(OUT, name + ".diff"), "w") as f:
            f.writelines(diff)
    print("%d mutants written, %d skipped" % (len(M) - bad, bad))
    return 1 if bad else 0


if __name__ == "__main__":
    sys.exit(main())
