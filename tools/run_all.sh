#!/bin/sh
# tools/run_all.sh [tier] : run every registered check once, print one line each (exit status, wall time)
cd "$(dirname "$0")/.." || exit 2
tier=${1:-quick}
rc=0
for id in $(/venv/bin/python -c "import json;print(' '.join(c['property_id'] for c in json.load(open('MANIFEST.json'))['checks']))"); do
  s=$(date +%s)
  out=$(./check "$id" --tier "$tier" 2>&1); st=$?
  e=$(date +%s)
  echo "$id exit=$st $((e-s))s $(echo "$out" | grep -c '^VIOLATION') violations | $(echo "$out" | tail -1)"
  [ $st -ne 0 ] && rc=1
done
exit $rc
