#!/venv/bin/python
"""Runs every /verif/mutants/*.diff (and /verif/seeded/*/patch*.diff) against the check of the property named by its
prefix, on a scratch copy of /repo. Prints a table and writes mutants/RESULTS.txt. Usage: tools/selftest.py [filter] [--tier T] [-j N]
"""
import argparse
import glob
import json
import os
import subprocess
import sys
from concurrent.futures import ThreadPoolExecutor

VERIF = os.path.dirname(os.path.dirname(os.path.abspath(__file__)))


def target(path):
    base = os.path.basename(path)
    if "/seeded/" in path:
        meta = json.load(open(os.path.join(os.path.dirname(path), "meta.json")))
        # the check that reported the change when it was adopted (normally the property's own check)
        hits = [k for k, v in meta.get("check_verdicts_when_adopted", {}).items() if v.get("exit") == 1]
        return meta["property"] if (not hits or meta["property"] in hits) else hits[0]
    return base[:3].upper()


def one(path, tier, jobs):
    env = dict(os.environ, VERIF_JOBS=str(jobs))
    r = subprocess.run([os.path.join(VERIF, "tools", "mutant_test.py"), path, "--tier", tier, target(path)],
                       capture_output=True, text=True, env=env)
    line = [l for l in r.stdout.splitlines() if l.startswith(target(path))]
    return path, (line[0] if line else (r.stdout + r.stderr)[-300:])


def main():
    ap = argparse.ArgumentParser()
    ap.add_argument("filter", nargs="?", default="")
    ap.add_argument("--tier", default="quick")
    ap.add_argument("-j", type=int, default=4)
    a = ap.parse_args()
    paths = sorted(glob.glob(os.path.join(VERIF, "mutants", "*.diff")) + glob.glob(os.path.join(VERIF, "seeded", "*", "patch*.diff")))
    flt = [f.lower() for f in a.filter.split(",")]
    paths = [p for p in paths if any(f in os.path.relpath(p, VERIF).lower() for f in flt) and "/_rejected/" not in p]
    results = []
    with ThreadPoolExecutor(a.j) as ex:
        for path, line in ex.map(lambda p: one(p, a.tier, max(2, 16 // a.j)), paths):
            rel = os.path.relpath(path, VERIF)
            print("%-60s %s" % (rel, line[:200]), flush=True)
            results.append((rel, line))
    det = sum(1 for _, l in results if " DETECTED " in l)
    print("detected %d of %d" % (det, len(results)))
    if a.filter:
        # partial run: merge into the recorded results (lines of other items are kept as they were)
        rp = os.path.join(VERIF, "mutants", "RESULTS.txt")
        old = {}
        for l in open(rp).read().splitlines():
            if not l.startswith("#") and l.strip():
                old[l.split()[0]] = l[61:]
        for rel, l in results:
            old[rel] = l[:160]
        n_det = sum(1 for l in old.values() if " DETECTED " in l)
        with open(rp, "w") as f:
            f.write("# tools/selftest.py --tier %s : %d of %d detected (last partial run: filter %r)\n" % (a.tier, n_det, len(old), a.filter))
            for rel in sorted(old):
                f.write("%-60s %s\n" % (rel, old[rel]))
    if not a.filter:
        with open(os.path.join(VERIF, "mutants", "RESULTS.txt"), "w") as f:
            f.write("# tools/selftest.py --tier %s : %d of %d detected\n" % (a.tier, det, len(results)))
            for rel, l in results:
                f.write("%-60s %s\n" % (rel, l[:160]))
    return 0 if det == len(results) else 1


if __name__ == "__main__":
    sys.exit(main())
