"""Dispatcher: python -m mc.run <ID> [--tier quick|thorough] [--replay FILE]

exit 0  property held on everything explored (known findings are echoed as KNOWN-FINDING lines)
exit 1  at least one `VIOLATION property=<id> replay=<path>` line
exit 2  the check itself is broken (harness exception, nondeterminism leak, replay divergence)
"""
import argparse
import importlib
import json
import os
import random
import sys
import time
import traceback

from .core import common
from .core.common import Collector, HarnessError, VERIF, say

EVIDENCE_SCHEMA = "/root/.vp/EVIDENCE.schema.json"
OUT = os.environ.get("VERIF_OUT") or VERIF        # mutant self-tests redirect evidence/replays away from /verif


def load_known():
    """finding: property=<id> key=<fingerprint> <text>   |   fixed: property=<id> <commit> <text>"""
    path = os.path.join(VERIF, "known_findings.txt")
    known = {}
    if os.path.exists(path):
        for line in open(path):
            line = line.strip()
            if not line.startswith("finding:"):
                continue
            parts = line.split(None, 3)
            if len(parts) < 3:
                continue
            pid = parts[1].split("=", 1)[1]
            key = parts[2].split("=", 1)[1]
            known.setdefault(pid, {})[key] = parts[3] if len(parts) > 3 else ""
    return known


def write_evidence(pid, mod, tier, seed, col, extra, wall, n_viol):
    cov = {
        "evaluations": int(col.evaluations),
        "distinct_nontrivial": int(len(col.distinct)),
        "rule": getattr(mod, "RULE", ""),
        "samples": col.samples[:6] or ["(no sample recorded)"],
    }
    for k, v in col.counters.items():
        cov[k] = int(v)
    for k, s in col.sets.items():
        cov["distinct_" + k] = len(s)
    cov.update(extra or {})
    if col.notes:
        cov["notes"] = col.notes
    ev = {
        "property_id": pid,
        "tier": tier,
        "seed": int(seed),
        "level": mod.LEVEL,
        "coverage": cov,
        "assumptions": list(getattr(mod, "ASSUMPTIONS", [])),
        "wall_s": round(wall, 3),
        "violations": int(n_viol),
    }
    try:
        import jsonschema
        sp = EVIDENCE_SCHEMA if os.path.exists(EVIDENCE_SCHEMA) else os.path.join(VERIF, "schemas", "EVIDENCE.schema.json")
        schema = json.load(open(sp)) if os.path.exists(sp) else None
        if schema is not None:
            jsonschema.validate(ev, schema)
    except ImportError:
        pass
    os.makedirs(os.path.join(OUT, "evidence"), exist_ok=True)
    path = os.path.join(OUT, "evidence", pid + ".json")
    tmp = path + ".tmp"
    with open(tmp, "w") as f:
        json.dump(ev, f, indent=1, sort_keys=True)
        f.write("\n")
    os.replace(tmp, path)
    return path


def write_replay(pid, v, tier, seed):
    d = os.path.join(OUT, "replays", pid)
    os.makedirs(d, exist_ok=True)
    path = os.path.join(d, common.digest([v["key"], v["case"]]) + ".json")
    with open(path, "w") as f:
        json.dump({"property": pid, "key": v["key"], "sub": v["sub"], "message": v["message"],
                   "case": v["case"], "occurrences": v.get("count", 1), "tier": tier, "seed": seed,
                   "how_to_replay": "./check %s --replay %s" % (pid, path)}, f, indent=1, sort_keys=True)
        f.write("\n")
    return path


def check_artap_location():
    import artap
    want = os.environ.get("ARTAP_VERIF_EXPECT_REPO", "/repo")
    where = os.path.dirname(os.path.dirname(os.path.abspath(artap.__file__)))
    if os.path.realpath(where) != os.path.realpath(want):
        raise HarnessError("artap imported from %s, expected %s" % (where, want))


def main(argv=None):
    ap = argparse.ArgumentParser()
    ap.add_argument("pid")
    ap.add_argument("--tier", default=None)
    ap.add_argument("--replay", default=None)
    ap.add_argument("--seed", type=int, default=None)
    a = ap.parse_args(argv)
    pid = a.pid.upper()
    tier = os.environ.get("VERIF_TIER") or a.tier or "quick"
    if tier not in ("quick", "thorough"):
        tier = "quick"
    seed = a.seed if a.seed is not None else int(os.environ.get("VERIF_SEED", "0") or 0)
    t0 = time.time()
    try:
        common.quiet()
        check_artap_location()
        import artap.operators, artap.archive, artap.problem, artap.algorithm  # noqa: F401,E401 (before workers fork)
        mod = importlib.import_module("mc.checks.%s" % pid.lower())
        if a.replay:
            data = json.load(open(a.replay))
            with common.muted():
                msgs = mod.replay(data["sub"], data["case"])
            if msgs:
                for key, m in msgs:
                    say("REPLAY violation key=%s: %s" % (key, m))
                say("VIOLATION property=%s replay=%s" % (pid, a.replay))
                return 1
            say("REPLAY ok: the recorded case no longer violates %s" % pid)
            return 0
        random.seed(seed)
        with common.muted():
            col, extra = mod.run(tier, seed)
    except HarnessError as e:
        say("CHECK-BROKEN property=%s\n%s" % (pid, e))
        return 2
    except Exception:
        say("CHECK-BROKEN property=%s\n%s" % (pid, traceback.format_exc()))
        return 2

    known = load_known().get(pid, {})
    fresh, old = [], []
    for v in col.violations:
        (old if v["key"] in known else fresh).append(v)
    for v in old:
        say("KNOWN-FINDING: property=%s key=%s %s" % (pid, v["key"], known[v["key"]] or v["message"]))
    fresh = fresh[:common.MAX_VIOLATIONS]
    extra = dict(extra or {})
    if old:
        extra["known_findings_seen"] = [v["key"] for v in old]
    try:
        write_evidence(pid, mod, tier, seed, col, extra, time.time() - t0, len(fresh))
    except Exception:
        say("CHECK-BROKEN property=%s (evidence)\n%s" % (pid, traceback.format_exc()))
        return 2
    for v in fresh:
        path = write_replay(pid, v, tier, seed)
        say("violation key=%s x%d: %s" % (v["key"], v.get("count", 1), v["message"]))
        say("VIOLATION property=%s replay=%s" % (pid, path))
    say("%s %s tier=%s seed=%d evaluations=%d distinct=%d wall=%.1fs" % (
        pid, "FAIL" if fresh else "ok", tier, seed, col.evaluations, len(col.distinct), time.time() - t0))
    return 1 if fresh else 0


if __name__ == "__main__":
    sys.exit(main())
