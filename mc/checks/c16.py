"""C16 -- multi-objective benchmark identities (DTLZ1-4, ZDT1, bi-objective), on a finite lattice of the box.

Lattice only: the technique decides the identities on every lattice point (position variables on a full grid,
distance variables with <=2 deviations from 0.5 to every level); it says nothing about points between.
"""
import itertools
import math

from ..core.common import Collector, run_shards

PROPERTY = "C16"
LEVEL = "exploration"
RULE = ("DTLZ1 (k in {1,2,5}) and DTLZ2/3/4 (dimension m+9), m=2..5: position variables on the full lattice {0,.25,.5,.75,1}^(m-1) "
        "(DTLZ4 also {.9,.97,.99}); distance variables at 0.5 with every choice of <=2 (quick, m>=4: <=1) of them moved to each of "
        "{0,.25,.75,1,.55}; ZDT1: x0 on 9 levels x <=2 of the other 29 moved to {0,.25,1}; bi-objective: 21x21 lattice. "
        "vectors as lists of floats, lists of numpy scalars and numpy arrays; five points in a row on one problem object, each evaluated twice (results must not alias or change, vectors must not be modified). Identities recomputed with an independent g. Non-trivial = some distance variable off 0.5 or position off 0.5; "
        "distinct = distinct (problem, point).")
ASSUMPTIONS = ["lattice only: a finite set of box points, exhaustive for that set",
               "tolerance 1e-9 relative to (1+g) for the DTLZ identities, 1e-12 relative for ZDT1 and the bi-objective problem"]

POS = (0.0, 0.25, 0.5, 0.75, 1.0)
POS4 = POS + (0.9, 0.97, 0.99)
DIST = (0.0, 0.25, 0.75, 1.0, 0.55)


def g_dtlz13(ys):
    return 100.0 * (len(ys) + sum((y - 0.5) ** 2 - math.cos(20.0 * math.pi * (y - 0.5)) for y in ys))


def g_dtlz24(ys):
    return sum((y - 0.5) ** 2 for y in ys)


def evaluate(problem, x, as_numpy=False):
    from artap.individual import Individual
    if as_numpy == "ndarray":
        import numpy as np
        return problem.evaluate(Individual(np.array(x, dtype=float)))
    if as_numpy:
        import numpy as np
        x = [np.float64(v) for v in x]
    return problem.evaluate(Individual(list(x)))


def check_sequence(name, m, k, points, as_numpy):
    """Several points evaluated one after another on ONE problem object (as an algorithm does): every returned cost list
    must still hold its own point's objectives afterwards, a second evaluation of the same individual must agree with
    the first, and evaluation must not modify the design vector."""
    from artap.individual import Individual
    import numpy as np
    p = problem_for(name, m, k)
    out = []
    kept = []
    scribble = as_numpy != "keep"          # "keep": the caller only keeps the returned lists (as Job.evaluate does)
    if as_numpy == "keep":
        as_numpy = False
    for x in points:
        vec = np.array(x, dtype=float) if as_numpy == "ndarray" else ([np.float64(v) for v in x] if as_numpy else list(x))
        ind = Individual(vec)
        try:
            r1 = p.evaluate(ind)
            snap = [float(v) for v in r1]
            after = [float(v) for v in ind.vector]
            try:
                if scribble:
                    r1.append(99.0)          # the caller extends / overwrites the list it was given (WorstCaseEvaluator does)
                    r1[0] = -77.0
            except Exception:
                pass
            r2 = [float(v) for v in p.evaluate(Individual(list(vec) if not hasattr(vec, "copy") else vec.copy()))]
        except Exception as e:
            return [("C16:%s:sequence:exception:%s" % (name, type(e).__name__), "%s at %r raised %r" % (name, x, e))]
        if after != [float(v) for v in x]:
            out.append(("C16:%s:evaluate-modifies-the-vector" % name, "%s m=%d: vector %r became %r by evaluating it (vector type %s)" % (
                name, m, x, after, "ndarray" if as_numpy == "ndarray" else "list")))
        if r2 != snap:
            out.append(("C16:%s:second-evaluation-differs" % name, "%s m=%d at %r: first %r, second evaluation of the same individual %r" % (name, m, x, snap, r2)))
        kept.append((x, r1, ([-77.0] + snap[1:] + [99.0]) if (isinstance(r1, list) and scribble) else snap, snap))
        if out:
            return out
    for x, obj, now, snap in kept:
        if [float(v) for v in obj] != now:
            out.append(("C16:%s:earlier-result-overwritten" % name,
                        "%s m=%d: the cost list returned for %r (then modified by the caller to %r) reads %r after later evaluations" % (name, m, x, now, [float(v) for v in obj])))
            break
        out += check_values(name, m, k, tuple(x), snap)
        if out:
            break
    return out


def check_moved(name, m, k, mode):
    """ONE Individual object walks through several box points (coordinates overwritten in place, or the vector re-bound) and
    is evaluated at each stop - by its own problem and, for DTLZ2/3/4 which share the dimension m+9, by the sibling
    problems too. Every result must be the objectives of the point the individual is at now (= what a fresh individual
    at that point gets, and the identities)."""
    from artap.individual import Individual
    pts = seq_points(name, m, k)
    sibs = [name] if name not in ("DTLZ2", "DTLZ3", "DTLZ4") else [name] + [s for s in ("DTLZ2", "DTLZ3", "DTLZ4") if s != name]
    ind = Individual(list(pts[0]))
    out = []
    for step, x in enumerate(pts + pts[:2]):
        if mode == "inplace":
            for j, v in enumerate(x):
                ind.vector[j] = v
        else:
            ind.vector = list(x)
        for sname in sibs:
            try:
                got = [float(v) for v in problem_for(sname, m, k).evaluate(ind)]
                fresh = [float(v) for v in problem_for(sname, m, k).evaluate(Individual(list(x)))]
            except Exception as e:
                return [("C16:%s:moved-individual:exception:%s" % (sname, type(e).__name__), "%s at %r raised %r" % (sname, x, e))]
            if got != fresh:
                return [("C16:%s:moved-individual:objectives-of-an-earlier-point" % sname,
                         "%s m=%d: one Individual object moved (%s) to its stop no. %d %r and evaluated (history: problems %r at every stop) gives %r, a fresh individual at that point %r"
                         % (sname, m, mode, step + 1, x, sibs, got, fresh))]
            out += [(key + ":moved-individual", msg) for key, msg in check_values(sname, m, k, tuple(x), got)]
            if out:
                return out
    return out


_cache = {}


def problem_for(name, m, k):
    from .c_support import quiet_problem
    key = (name, m, k)
    if key not in _cache:
        import artap.benchmark_pareto as bp
        if name == "DTLZ1":
            _cache[key] = quiet_problem(bp.DTLZI, dimension=m + k - 1, m=m)
        elif name in ("DTLZ2", "DTLZ3", "DTLZ4"):
            cls = {"DTLZ2": bp.DTLZII, "DTLZ3": bp.DTLZIII, "DTLZ4": bp.DTLZIV}[name]
            _cache[key] = quiet_problem(cls, dimension=m + 9, m=m)
        elif name == "ZDT1":
            _cache[key] = quiet_problem(bp.ZDT1)
        elif name == "BI":
            _cache[key] = quiet_problem(bp.BiObjectiveTestProblem)
    return _cache[key]


def check_point(name, m, k, x, as_numpy=False):
    p = problem_for(name, m, k)
    try:
        f = evaluate(p, x, as_numpy)
        f = [float(v) for v in f]
    except Exception as e:
        return [("C16:%s:exception:%s" % (name, type(e).__name__), "%s(m=%d) at %r raised %r" % (name, m, x, e))]
    return check_values(name, m, k, x, f)


def check_values(name, m, k, x, f):
    out = []
    desc = "%s m=%d k=%d x=%r -> %r" % (name, m, k, x, f)
    if any(not math.isfinite(v) for v in f):
        return [("C16:%s:not-finite" % name, desc)]
    if name in ("DTLZ1", "DTLZ2", "DTLZ3", "DTLZ4"):
        if len(f) != m:
            return [("C16:%s:objective-count" % name, desc)]
        ys = x[len(x) - k:]
        if name == "DTLZ1":
            g = g_dtlz13(ys)
            lhs, rhs, what = sum(f), 0.5 * (1.0 + g), "sum f = (1+g)/2"
        else:
            g = g_dtlz13(ys) if name == "DTLZ3" else g_dtlz24(ys)
            lhs, rhs, what = math.sqrt(sum(v * v for v in f)), 1.0 + g, "||f|| = 1+g"
        if abs(lhs - rhs) > 1e-9 * (1.0 + g):
            onfront = all(y == 0.5 for y in ys)
            out.append(("C16:%s:identity:%s" % (name, "on-front" if onfront else "off-front"),
                        "%s violated: %r vs %r; %s" % (what, lhs, rhs, desc)))
        if any(v < -1e-12 * (1.0 + g) for v in f):
            out.append(("C16:%s:negative-objective" % name, desc))
    elif name == "ZDT1":
        g = 1.0 + 9.0 * sum(x[1:]) / (len(x) - 1)
        if len(f) != 2:
            return [("C16:ZDT1:objective-count", desc)]
        exp = g * (1.0 - math.sqrt(f[0] / g)) if f[0] >= 0 else float("nan")
        if not abs(f[1] - exp) <= 1e-12 * max(1.0, abs(exp)):
            out.append(("C16:ZDT1:identity", "f2 = g(1-sqrt(f1/g)) violated: expected %r; %s" % (exp, desc)))
        if f[0] < 0 or f[1] < -1e-12:
            out.append(("C16:ZDT1:negative-objective", desc))
    elif name == "BI":
        if len(f) != 2 or not abs(f[0] * f[1] - (1.0 + x[1])) <= 1e-12 * (1.0 + x[1]):
            out.append(("C16:BI:identity", "f1*f2 = 1+x2 violated; " + desc))
        if f[0] < 0 or f[1] < 0:
            out.append(("C16:BI:negative-objective", desc))
    return out


def distance_assignments(k, max_dev=2):
    yield (0.5,) * k
    for r in range(1, max_dev + 1):
        for idx in itertools.combinations(range(k), r):
            for vals in itertools.product(DIST, repeat=r):
                y = [0.5] * k
                for i, v in zip(idx, vals):
                    y[i] = v
                yield tuple(y)


def seq_points(name, m, k):
    """A short, varied sequence of box points for the one-object history check."""
    n = {"ZDT1": 30, "BI": 2}.get(name, (m - 1) + k)
    pts = []
    for j in range(5):
        if name == "BI":
            pts.append((0.1 + 0.2 * j, 1.0 * j))
        else:
            pts.append(tuple(((3 * i + 7 * j) % 11) / 10.0 for i in range(n)))
    return pts


def check_via_job(name, m, k, step):
    """Designs evaluated the way algorithms evaluate them (Algorithm.evaluate -> Job), two of them almost at the same point:
    each recorded cost vector satisfies the identities for ITS OWN vector."""
    from artap.algorithm import DummyAlgorithm
    from artap.individual import Individual
    p = problem_for(name, m, k)
    p.individuals = []
    base = list(seq_points(name, m, k)[1])
    pts = [list(base)]
    for j in (0, len(base) - 1):
        q = list(base)
        q[j] = min(1.0, q[j] + step) if q[j] + step <= 1.0 else q[j] - step
        pts.append(q)
    inds = [Individual(list(x)) for x in pts]
    try:
        DummyAlgorithm(p).evaluate(inds)
    except Exception as e:
        return [("C16:%s:via-job:exception:%s" % (name, type(e).__name__), "%s(m=%d): evaluating %r raised %r" % (name, m, pts, e))]
    out = []
    for ind, x in zip(inds, pts):
        if [float(v) for v in ind.vector] != [float(v) for v in x]:
            out.append(("C16:%s:via-job:vector-changed" % name, "%s(m=%d): design %r became %r" % (name, m, x, list(ind.vector))))
            break
        viol = check_values(name, m, k, tuple(float(v) for v in ind.vector), [float(v) for v in ind.costs])
        if viol:
            out += [(key + ":evaluated-through-job", "designs %g apart evaluated in one batch: %s" % (step, msg)) for key, msg in viol[:1]]
            break
    return out


def _shard(shard, col: Collector):
    if shard[0] == "viajob":
        _, name, m, k = shard
        for step in (1e-2, 1e-6, 1e-7, 3e-8, 1e-8, 1e-9, 1e-12):
            col.case()
            col.nontrivial(("viajob", name, m, k, step))
            for key, msg in check_via_job(name, m, k, step):
                col.violation(key, "viajob", msg, {"name": name, "m": m, "k": k, "step": step})
        col.sample({"kind": "near-identical designs evaluated through Algorithm.evaluate", "problem": name}, 1)
        return
    if shard[0] == "moved":
        _, name, m, k = shard
        for mode in ("inplace", "rebind"):
            col.case()
            col.nontrivial(("moved", name, m, k, mode))
            for key, msg in check_moved(name, m, k, mode):
                col.violation(key, "moved", msg, {"name": name, "m": m, "k": k, "mode": mode})
        col.sample({"kind": "one Individual object moved through seven points and evaluated at each (sibling problems in between)", "problem": name, "m": m}, 1)
        return
    if shard[0] == "seq":
        _, name, m, k = shard
        for as_numpy in (False, True, "ndarray", "keep"):
            col.case()
            col.nontrivial(("seq", name, m, k, str(as_numpy)))
            for key, msg in check_sequence(name, m, k, seq_points(name, m, k), as_numpy):
                col.violation(key, "seq", msg, {"name": name, "m": m, "k": k, "numpy": as_numpy})
        col.sample({"kind": "one problem object, five points in a row, each evaluated twice", "problem": name, "m": m}, 1)
        return
    name, m, k, as_numpy = shard[:4]
    if name in ("DTLZ1", "DTLZ2", "DTLZ3", "DTLZ4"):
        pos0, max_dev = shard[4], shard[5]
        pos_levels = POS4 if name == "DTLZ4" else POS
        for rest in itertools.product(pos_levels, repeat=m - 2):
            pos = (pos0,) + rest
            for ys in distance_assignments(k, max_dev):
                x = tuple(pos) + ys
                col.case()
                if any(v != 0.5 for v in x):
                    col.nontrivial((name, m, k, x))
                for key, msg in check_point(name, m, k, x, as_numpy):
                    col.violation(key, "point", msg, {"name": name, "m": m, "k": k, "x": x, "numpy": as_numpy})
        col.sample({"problem": name, "m": m, "k": k, "x": [0.25] * (m - 1) + [0.5] * (k - 1) + [0.75]}, 1)
    elif name == "ZDT1":
        for x0 in (0.0, 0.125, 0.25, 0.375, 0.5, 0.625, 0.75, 0.875, 1.0):
            for r in range(0, 3):
                for idx in itertools.combinations(range(1, 30), r):
                    for vals in itertools.product((0.0, 0.25, 1.0), repeat=r):
                        x = [x0] + [0.5] * 29
                        for i, v in zip(idx, vals):
                            x[i] = v
                        col.case()
                        col.nontrivial(("ZDT1", tuple(x)))
                        for key, msg in check_point("ZDT1", 2, 29, tuple(x), as_numpy):
                            col.violation(key, "point", msg, {"name": "ZDT1", "m": 2, "k": 29, "x": x, "numpy": as_numpy})
        col.sample({"problem": "ZDT1", "x0": 0.25, "moved": {"3": 1.0}}, 1)
    elif name == "BI":
        for i in range(21):
            for j in range(21):
                x = (0.1 + 0.9 * i / 20.0, 5.0 * j / 20.0)
                col.case()
                col.nontrivial(("BI", x))
                for key, msg in check_point("BI", 2, 0, x, as_numpy):
                    col.violation(key, "point", msg, {"name": "BI", "m": 2, "k": 0, "x": x, "numpy": as_numpy})
        col.sample({"problem": "BI", "x": [0.55, 2.5]}, 1)


def replay(sub, case):
    if sub == "viajob":
        return check_via_job(case["name"], case["m"], case["k"], case["step"])
    if sub == "moved":
        return check_moved(case["name"], case["m"], case["k"], case["mode"])
    if sub == "seq":
        return check_sequence(case["name"], case["m"], case["k"], seq_points(case["name"], case["m"], case["k"]), case["numpy"])
    return check_point(case["name"], case["m"], case["k"], tuple(case["x"]), case.get("numpy", False))


def run(tier, seed):
    shards = []
    ms = (2, 3, 4, 5)
    for m in ms:
        dev = 2 if (tier == "thorough" or m <= 3) else 1
        for p0 in POS:
            for k in (1, 2, 5):
                shards.append(("DTLZ1", m, k, False, p0, 2))
            for name in ("DTLZ2", "DTLZ3"):
                shards.append((name, m, 10, False, p0, dev))
        for p0 in POS4:
            shards.append(("DTLZ4", m, 10, False, p0, dev))
    for p0 in POS:
        shards += [("DTLZ2", 3, 10, True, p0, 1), ("DTLZ1", 3, 5, True, p0, 1)]
    shards += [("ZDT1", 2, 29, False), ("BI", 2, 0, False), ("BI", 2, 0, True)]
    for m in ms:
        shards += [("seq", "DTLZ1", m, 3), ("seq", "DTLZ2", m, 10), ("seq", "DTLZ3", m, 10), ("seq", "DTLZ4", m, 10)]
    shards += [("seq", "ZDT1", 2, 29), ("seq", "BI", 2, 0)]
    for m in ms:
        shards += [("moved", "DTLZ1", m, 3), ("moved", "DTLZ2", m, 10), ("moved", "DTLZ3", m, 10), ("moved", "DTLZ4", m, 10)]
    shards += [("moved", "ZDT1", 2, 29), ("moved", "BI", 2, 0)]
    # far more distance variables / objectives than the lattice reaches (sizes at which fast paths would switch on)
    for k in (31, 32, 33, 64, 65, 100, 127, 128, 129, 200, 256, 257, 1000):
        for m in (2, 3):
            shards += [("seq", "DTLZ1", m, k)]        # DTLZ2-4 are stated for dimension m+9 only (their k is fixed to 10)
    for m in (8, 10, 16, 17, 33):
        shards += [("seq", "DTLZ1", m, 5), ("seq", "DTLZ2", m, 10), ("seq", "DTLZ3", m, 10), ("seq", "DTLZ4", m, 10)]
    for name, m, k in (("DTLZ1", 3, 3), ("DTLZ2", 3, 10), ("DTLZ3", 2, 10), ("DTLZ4", 3, 10), ("ZDT1", 2, 29), ("BI", 2, 0)):
        shards.append(("viajob", name, m, k))
    for p0 in POS:
        shards += [("DTLZ3", 3, 10, "ndarray", p0, 1), ("DTLZ1", 4, 2, "ndarray", p0, 1), ("DTLZ4", 2, 10, "ndarray", p0, 1)]
    shards.sort(key=lambda s: -(s[1] if isinstance(s[1], int) else s[2]))
    col = run_shards(_shard, shards)
    return col, {"exhaustive": True, "scope": "lattice only (finite set of box points)",
                 "position_levels": POS, "distance_levels": DIST}


RULE += (' Evaluation sequences also with a caller that only keeps the returned lists (no modification), so a shared result buffer is visible.')

RULE += (' Beyond small: DTLZ1 with 31..1000 distance variables, all four families with m in {8, 10, 16, 17, 33}; designs 1e-2..1e-12 apart evaluated through Algorithm.evaluate.')
RULE += (' One Individual object moved through seven points (coordinates overwritten in place / vector re-bound) and evaluated at every stop, DTLZ2/3/4 evaluating the same object in turn: results must be those of a fresh individual at the current point.')
