"""C09 -- runs keep exact generation bookkeeping, budget and generational elitism; eps-MOEA acceptance step.

Full run() executions of NSGA-II, eps-MOEA, OMOPSO, SMPSO under the choice explorer: every random decision and pick
flipped and every objective call allowed to fail transiently (deviation-bounded) around seeded base streams; the
acceptance step exhaustively at operator level.
"""
import itertools
from collections import Counter

from ..core.common import Collector, run_shards
from ..core.explorer import explore_part, run_once
from ..core.refmodels import ref_dominance
from ..core import shim as shim_mod

PROPERTY = "C09"
LEVEL = "exploration"
RULE = ("runs: algorithms x N in {2,3,4} x G in {1,2,3} (plus long runs N,G in {(4,12),(10,5),(3,20)} and N,G in {(5,4),(7,2),(6,3)}: default execution with every free choice; thorough: every single deviation) x (parameters, objectives) in {(1,1),(2,2),(2,1)} x unconstrained / always-satisfied / half-satisfied inequality constraint x base streams from VERIF_SEED; "
        "choice points = every decision draw (3-way), every sample/choice pick (all alternatives), every objective call (ok / TimeoutError); "
        "all executions with <=1 deviation (thorough <=2), plus scripted runs in which one design fails 4 times in a row; value draws never "
        "deviate (no manufactured coincidences). acceptance step: every population of <=3 (thorough 4) over V3^2 x {F,T} x every offspring x "
        "every random.choice outcome. Non-trivial = execution with >=1 deviation or an acceptance case with a dominance relation; "
        "distinct = distinct choice sequences / case tuples.")
ASSUMPTIONS = ["objective deterministic; successful evaluations are counted by the harness wrapper at objective exit",
               "dominance judged by the C01 reference relation on signed costs"]

V3 = (0.0, 1.0, 2.0)
ALPHA = [(a, b, f) for a in V3 for b in V3 for f in (False, True)]


# ------------------------------------------------------------------ acceptance step
class _Forced:
    def __init__(self, pick):
        self.pick = pick
        self.asked = []

    def force_pick(self, label, n):
        self.asked.append((label, n))
        return self.pick % n

    def choose(self, kind, n, price=1, label=None):
        return 0


def check_acceptance(pop_costs, x_costs, pick):
    from artap.individual import Individual
    from artap.operators import TournamentSelector
    sh = shim_mod.install()
    pop = []
    for k, c in enumerate(pop_costs):
        ind = Individual([float(k), 0.5])
        ind.costs_signed = list(c)
        pop.append(ind)
    x = Individual([99.0, 0.5])
    x.costs_signed = list(x_costs)
    orig = list(pop)
    ctx = _Forced(pick)
    sh.reset(0, ctx)
    try:
        TournamentSelector([]).pop_acceptance(pop, x)
    except Exception as e:
        return [("C09:acceptance:exception:%s" % type(e).__name__, "pop_acceptance(%r, %r) raised %r" % (pop_costs, x_costs, e))]
    finally:
        sh.ctx = None
    out = []
    desc = "population %r offspring %r pick %d -> %r" % (pop_costs, x_costs, pick, [tuple(p.costs_signed) for p in pop])
    dominated_by_x = [i for i, c in enumerate(pop_costs) if ref_dominance(tuple(x_costs), tuple(c)) == 1]
    x_dominated = any(ref_dominance(tuple(c), tuple(x_costs)) == 1 for c in pop_costs)
    if len(pop) != len(orig):
        out.append(("C09:acceptance:size-changed", desc))
        return out
    removed = [o for o in orig if not any(o is p for p in pop)]
    has_x = any(p is x for p in pop)
    if dominated_by_x:
        if not (has_x and pop[-1] is x and len(removed) == 1):
            out.append(("C09:acceptance:dominating-offspring-not-inserted", desc))
        elif orig.index(removed[0]) not in dominated_by_x:
            out.append(("C09:acceptance:replaced-a-non-dominated-member", desc))
    elif x_dominated:
        if has_x or removed:
            out.append(("C09:acceptance:dominated-offspring-accepted", desc))
    else:
        if not (has_x and pop[-1] is x and len(removed) == 1):
            out.append(("C09:acceptance:incomparable-offspring-not-inserted", desc))
    return out


# ------------------------------------------------------------------ full runs
CONSTRAINTS = {
    None: None,
    "bigcosts": None,
    "always": lambda x: [x[0] - 10.0],            # every design satisfies the constraint
    "half": lambda x: [x[0] - 0.5],               # satisfied iff x0 < 0.5
}


def ref_signed(ind, signs, g):
    """Signed costs recomputed by the harness from costs and vector (independent of the stored marker)."""
    marker = True if g is None else (not all(v < 0 for v in g(list(ind.vector))))
    return tuple(s * round(c, 7) for s, c in zip(signs, ind.costs)) + (marker,)


def run_body_factory(name, N, G, nparams, ncosts, seed, fail_script=None, allow_faults=True, constraint=None):
    g = CONSTRAINTS[constraint]

    def body(ctx):
        from .c_support import run_algorithm
        st = {"calls": 0, "ok": 0}

        def before(problem, individual):
            k = st["calls"]
            st["calls"] += 1
            if fail_script is not None:
                if k in fail_script:
                    raise TimeoutError("scripted")
            elif allow_faults:
                if ctx.choose("fault", 2, 1, "objective") == 1:
                    raise TimeoutError("injected")

        def after(problem, individual):
            st["ok"] += 1
        acc_viol = []
        from artap.operators import TournamentSelector
        orig_acc = TournamentSelector.pop_acceptance

        def watched_acc(self, individuals, individual):
            # the acceptance rule, observed inside the real eps-MOEA run (working population of the run)
            before_l = list(individuals)
            r = orig_acc(self, individuals, individual)
            xs = tuple(individual.costs_signed)
            dom = [m for m in before_l if ref_dominance(xs, tuple(m.costs_signed)) == 1]
            x_dominated = any(ref_dominance(tuple(m.costs_signed), xs) == 1 for m in before_l)
            removed = [m for m in before_l if not any(m is k for k in individuals)]
            has_x = any(k is individual for k in individuals)
            if len(individuals) != len(before_l):
                acc_viol.append(("C09:EpsMOEA:working-population-size", "acceptance changed the size %d -> %d" % (len(before_l), len(individuals))))
            elif dom and not (has_x and len(removed) == 1 and any(removed[0] is m for m in dom)):
                acc_viol.append(("C09:EpsMOEA:acceptance-in-run:dominating", "offspring %r dominates members but replaced %r" % (xs, [tuple(m.costs_signed) for m in removed])))
            elif not dom and x_dominated and (has_x or removed):
                acc_viol.append(("C09:EpsMOEA:acceptance-in-run:dominated", "dominated offspring %r was accepted" % (xs,)))
            elif not dom and not x_dominated and not (has_x and len(removed) == 1):
                acc_viol.append(("C09:EpsMOEA:acceptance-in-run:incomparable", "incomparable offspring %r not exchanged for one member" % (xs,)))
            return r
        if name == "EpsMOEA":
            TournamentSelector.pop_acceptance = watched_acc
        fbig = None
        if constraint == "bigcosts":      # objectives of magnitude 1e6 whose differences are far below 1e-9 relative
            fbig = (lambda v: [1e6 + 5e-4 * sum(v)] + ([2e6 - 3e-4 * v[0]] if ncosts > 1 else []))
        try:
            problem, alg, exc = run_algorithm(name, ctx, seed, N, G, n_params=nparams, n_costs=ncosts, f=fbig,
                                              bounds=[[0.0, 1.0], [-2.0, 2.0], [0.5, 1.5], [-1.0, 0.0]][:nparams], before=before, after=after,
                                              shim_cfg={"extreme_values": False, "max_draws": max(5000, 300 * N * (G + 1))}, g=g)
        finally:
            TournamentSelector.pop_acceptance = orig_acc
        desc = "%s N=%d G=%d params=%d objectives=%d seed=%d fail_script=%r constraint=%r" % (
            name, N, G, nparams, ncosts, seed, sorted(fail_script) if fail_script else None, constraint)
        out = []

        def bad(key, msg):
            out.append((key, msg + "; " + desc))
        for k, m in acc_viol[:2]:
            bad(k, m)
        if exc is not None:
            bad("C09:%s:exception:%s" % (name, type(exc).__name__), "run raised %r" % (exc,))
            ctx.digest = ("exc", type(exc).__name__)
            return out
        pops = problem.populations()
        first = 1 if name == "NSGAII" else 0
        keys = list(range(first, G + 1))
        budget = N * G if name == "NSGAII" else N * (G + 1)
        if sorted(pops) != keys:
            bad("C09:%s:generation-tags" % name, "generations recorded %r, expected %r" % (sorted(pops), keys))
        for k in sorted(pops):
            if len(pops[k]) != N:
                bad("C09:%s:generation-size:%s" % (name, "first" if k == first else "later"), "generation %d has %d designs, expected %d" % (k, len(pops[k]), N))
        if st["ok"] != budget:
            bad("C09:%s:budget:%s" % (name, "over" if st["ok"] > budget else "under"), "%d successful evaluations, budget %d" % (st["ok"], budget))
        if name == "NSGAII":
            for k in sorted(pops):
                if k == first:
                    continue
                vecs = [tuple(i.vector) for i in pops[k]]
                if len(set(vecs)) != len(vecs):
                    bad("C09:NSGAII:repeated-design", "generation %d repeats a design: %r" % (k, vecs))
            for k in sorted(pops):
                if k + 1 not in pops:
                    continue
                nxt = {tuple(i.vector) for i in pops[k + 1]}
                for d in pops[k]:
                    if tuple(d.vector) in nxt:
                        continue
                    for s in pops[k + 1]:
                        if not d.costs or not s.costs:
                            continue
                        signs = problem.signs
                        if ref_dominance(ref_signed(d, signs, g), ref_signed(s, signs, g)) == 1:
                            bad("C09:NSGAII:elitism", "generation %d keeps %r (%r) although the dropped %r (%r) of generation %d dominates it" % (
                                k + 1, s.vector, s.costs_signed, d.vector, d.costs_signed, k))
                            break
                    else:
                        continue
                    break
            if ncosts == 1:
                best = [min(i.costs_signed[0] for i in pops[k]) for k in sorted(pops) if pops[k] and all(i.costs_signed for i in pops[k])]
                if constraint in (None, "always", "bigcosts") and any(b > a for a, b in zip(best, best[1:])):
                    bad("C09:NSGAII:best-got-worse", "best signed cost per generation %r" % (best,))
        for ind in problem.individuals:
            if not ind.costs:
                bad("C09:%s:recorded-without-costs" % name, "design %r of generation %r has no costs" % (ind.vector, ind.population_id))
                break
        ctx.digest = (tuple(tuple(i.vector) for i in problem.individuals), st["ok"])
        return out
    return body


def check_two_algorithms(name1, N1, G1, name2, N2, G2, seed):
    """Both algorithm objects are constructed and configured first, then run one after the other: each must keep its own
    population size and generation count (options are per object)."""
    from ..core import shim as shim_mod
    from .c_support import make_problem, reset_ids, algorithm_class, std_objective
    reset_ids()
    out = []
    made = []
    for name, N, G in ((name1, N1, G1), (name2, N2, G2)):
        cnt = {"ok": 0}
        problem = make_problem(n_params=2, bounds=[[0.0, 1.0], [-2.0, 2.0]], criteria=["minimize", "minimize"], f=std_objective(2),
                               after=(lambda c: (lambda problem, individual: c.__setitem__("ok", c["ok"] + 1)))(cnt))
        alg = algorithm_class(name)(problem)
        alg.options['max_population_number'] = G
        alg.options['max_population_size'] = N
        alg.options['verbose_level'] = 0
        made.append((name, N, G, problem, alg, cnt))
    sh = shim_mod.install()
    for name, N, G, problem, alg, cnt in made:
        sh.reset(seed, None)
        try:
            alg.run()
        except Exception as e:
            out.append(("C09:two-algorithms:exception:%s" % type(e).__name__, "%s raised %r" % (name, e)))
            continue
        pops = problem.populations()
        first = 1 if name == "NSGAII" else 0
        budget = N * G if name == "NSGAII" else N * (G + 1)
        if sorted(pops) != list(range(first, G + 1)) or any(len(v) != N for v in pops.values()) or cnt["ok"] != budget:
            out.append(("C09:two-algorithms:options-not-per-object:%s" % name,
                        "%s configured with N=%d G=%d next to %s(N=%d, G=%d): generations %r sizes %r evaluations %d (budget %d)" % (
                            name, N, G, name2 if name == name1 else name1, N2 if name == name1 else N1, G2 if name == name1 else G1,
                            sorted(pops), sorted(set(len(v) for v in pops.values())), cnt["ok"], budget)))
    return out


def check_rerun(name, plan, seed):
    """ONE algorithm object run several times with the options changed in between (a pilot run, then the production run):
    every run, judged on the designs it recorded itself, keeps the stated sizes and budget."""
    import collections
    from ..core import shim as shim_mod
    from .c_support import make_problem, reset_ids, algorithm_class, std_objective
    reset_ids()
    cnt = {"ok": 0}
    problem = make_problem(n_params=2, bounds=[[0.0, 1.0], [-2.0, 2.0]], criteria=["minimize", "minimize"], f=std_objective(2),
                           after=lambda problem, individual: cnt.__setitem__("ok", cnt["ok"] + 1))
    alg = algorithm_class(name)(problem)
    alg.options['verbose_level'] = 0
    sh = shim_mod.install()
    sh.reset(seed, None)
    out = []
    try:
        for r, (N, G) in enumerate(plan):
            alg.options['max_population_number'] = G
            alg.options['max_population_size'] = N
            first, c0 = len(problem.individuals), cnt["ok"]
            try:
                alg.run()
            except Exception as e:
                out.append(("C09:rerun:%s:exception:%s" % (name, type(e).__name__), "run %d of plan %r raised %r" % (r + 1, plan, e)))
                break
            sizes = collections.Counter(i.population_id for i in problem.individuals[first:])
            lo = 1 if name == "NSGAII" else 0
            budget = N * G if name == "NSGAII" else N * (G + 1)
            exp = {k: N for k in range(lo, G + 1)}
            if dict(sizes) != exp or cnt["ok"] - c0 != budget:
                out.append(("C09:rerun:%s:%s" % (name, "sizes" if dict(sizes) != exp else "budget"),
                            "%s object run with plan %r: run %d (N=%d, G=%d) recorded generation sizes %r with %d evaluations, expected %r with %d" % (
                                name, plan, r + 1, N, G, sorted(sizes.items()), cnt["ok"] - c0, sorted(exp.items()), budget)))
                break
    finally:
        sh.ctx = None
    return out


def check_store_record(name, N, G, seed):
    """The persisted record of a run (read back through a view of the store) shows the same generations as the memory."""
    import atexit
    import collections
    import os
    import tempfile
    from artap.problem import ProblemViewDataStore
    from .c_support import run_algorithm
    db = os.path.join(tempfile.gettempdir(), "c09-%d-%s-%d-%d.sqlite" % (os.getpid(), name, N, G))
    for ext in ("", "-journal"):
        if os.path.exists(db + ext):
            os.remove(db + ext)
    out = []
    problem, alg, exc = run_algorithm(name, None, seed, N, G, n_params=2, n_costs=2, store_path=db)
    if exc is not None:
        return [("C09:store-record:%s:exception:%s" % (name, type(exc).__name__), "run with a store raised %r" % (exc,))]
    try:
        problem.data_store.destroy()
    except Exception:
        pass
    try:
        view = ProblemViewDataStore(database_name=db)
        atexit.unregister(view.cleanup)
        sizes = collections.Counter(i.population_id for i in view.individuals)
        view.data_store.destroy()
    except Exception as e:
        return [("C09:store-record:%s:exception:%s" % (name, type(e).__name__), "reading the store raised %r" % (e,))]
    finally:
        for ext in ("", "-journal"):
            if os.path.exists(db + ext):
                os.remove(db + ext)
    lo = 1 if name == "NSGAII" else 0
    got = {k: sizes.get(k, 0) for k in range(lo, G + 1)}
    extra = sorted(k for k in sizes if k > G)
    if any(v != N for v in got.values()) or extra:
        out.append(("C09:store-record:%s:generation-sizes" % name,
                    "%s N=%d G=%d: the stored record read back shows generation sizes %r (all tags %r), expected %d each" % (name, N, G, sorted(got.items()), sorted(sizes.items()), N)))
    return out


def _shard(shard, col: Collector):
    kind = shard[0]
    if kind == "rerun":
        _, seed = shard
        plans = [((4, 2), (2, 3)), ((2, 1), (3, 2)), ((3, 2), (3, 2)), ((2, 2), (4, 1), (3, 1)), ((4, 1), (2, 2), (6, 1)), ((2, 3), (2, 1))]
        for name in ("NSGAII", "EpsMOEA", "OMOPSO", "SMPSO"):
            for plan in plans:
                col.case()
                col.nontrivial(("rerun", name, plan))
                for key, msg in check_rerun(name, plan, seed):
                    col.violation(key, "rerun", msg, {"name": name, "plan": plan, "seed": seed})
            for (N, G) in ((2, 1), (3, 2), (4, 3), (5, 2)):
                col.case()
                col.nontrivial(("store", name, N, G))
                for key, msg in check_store_record(name, N, G, seed):
                    col.violation(key, "store", msg, {"name": name, "N": N, "G": G, "seed": seed})
        col.sample({"kind": "one algorithm object run again with changed options; stored record read back", "plan": [[4, 2], [2, 3]]}, 1)
        return
    if kind == "two":
        algs = ("NSGAII", "EpsMOEA", "OMOPSO", "SMPSO")
        for a in algs:
            for b in algs:
                for (N1, G1, N2, G2) in ((2, 2, 3, 1), (3, 1, 2, 3), (4, 2, 2, 1)):
                    col.case()
                    col.nontrivial(("two", a, b, N1, G1, N2, G2))
                    for key, msg in check_two_algorithms(a, N1, G1, b, N2, G2, shard[1]):
                        col.violation(key, "two", msg, {"a": a, "b": b, "N1": N1, "G1": G1, "N2": N2, "G2": G2, "seed": shard[1]})
        col.sample({"kind": "two algorithm objects configured before either runs", "first": ["NSGAII", 2, 2], "second": ["SMPSO", 3, 1]}, 1)
        return
    if kind == "acc":
        _, n, fixed = shard
        for rest in itertools.product(ALPHA, repeat=n - len(fixed)):
            pc = list(fixed) + list(rest)
            for xc in ALPHA:
                for pick in range(n):
                    col.case()
                    if any(ref_dominance(tuple(xc), tuple(c)) for c in pc):
                        col.nontrivial(("acc", tuple(pc), xc, pick))
                    for key, msg in check_acceptance(pc, xc, pick):
                        col.violation(key, "acc", msg, {"pop": pc, "x": xc, "pick": pick})
        col.sample({"kind": "acceptance", "population": list(fixed) + [ALPHA[7]] * (n - len(fixed)), "offspring": ALPHA[3], "pick": 0}, 1)
    elif kind == "run":
        _, name, N, G, nparams, ncosts, seed, bound, part, nparts = shard[:10]
        constraint = shard[10] if len(shard) > 10 else None
        body = run_body_factory(name, N, G, nparams, ncosts, seed, constraint=constraint)

        def on_exec(ctx, out):
            if any(ctx.choices):
                col.nontrivial((name, N, G, nparams, ncosts, seed, tuple(ctx.choices)))
        explore_part(body, col, part, nparts, bound=bound, sub="run", on_exec=on_exec,
                     case_extra={"name": name, "N": N, "G": G, "nparams": nparams, "ncosts": ncosts, "seed": seed, "constraint": constraint})
        if part == 0:
            col.sample({"algorithm": name, "N": N, "G": G, "parameters": nparams, "objectives": ncosts, "seed": seed, "deviation_bound": bound}, 1)
    elif kind == "script":
        _, name, N, G, seed = shard
        total = N * G if name == "NSGAII" else N * (G + 1)
        from ..core.explorer import Ctx
        for start in sorted({0, N - 1, N, total - 1}):
            for length in (1, 4):
                script = set(range(start, start + length))
                body = run_body_factory(name, N, G, 2, 2, seed, fail_script=script)
                ctx = Ctx([])
                col.case()
                col.nontrivial(("script", name, N, G, seed, start, length))
                for key, msg in body(ctx):
                    col.violation(key, "script", msg, {"name": name, "N": N, "G": G, "seed": seed, "script": sorted(script)})
        col.sample({"kind": "scripted failures", "algorithm": name, "N": N, "G": G, "failing_calls": [N, N + 1, N + 2, N + 3]}, 1)


def replay(sub, case):
    if sub == "rerun":
        return check_rerun(case["name"], tuple(tuple(x) for x in case["plan"]), case["seed"])
    if sub == "store":
        return check_store_record(case["name"], case["N"], case["G"], case["seed"])
    if sub == "acc":
        return check_acceptance([tuple(c) for c in case["pop"]], tuple(case["x"]), case["pick"])
    if sub == "run":
        ctx, out = run_once(run_body_factory(case["name"], case["N"], case["G"], case["nparams"], case["ncosts"], case["seed"],
                                             constraint=case.get("constraint")), case["choices"])
        return out
    if sub == "two":
        return check_two_algorithms(case["a"], case["N1"], case["G1"], case["b"], case["N2"], case["G2"], case["seed"])
    if sub == "script":
        from ..core.explorer import Ctx
        return run_body_factory(case["name"], case["N"], case["G"], 2, 2, case["seed"], fail_script=set(case["script"]))(Ctx([]))
    raise ValueError(sub)


def run(tier, seed):
    import artap.algorithm_NSGAII, artap.algorithm_genetic, artap.algorithm_swarm  # noqa: F401,E401
    shards = [("acc", 1, ()), ("acc", 2, ())] + [("acc", 3, (a,)) for a in ALPHA]
    if tier == "thorough":
        shards += [("acc", 4, (a, b)) for a in ALPHA for b in ALPHA[::3]]
    algs = ("NSGAII", "EpsMOEA", "OMOPSO", "SMPSO")
    streams = [seed * 2, seed * 2 + 1] if tier != "thorough" else [seed * 8 + i for i in range(4)]
    bound = 2 if tier == "thorough" else 1
    for name in algs:
        for (N, G) in ((2, 1), (2, 2), (3, 2), (3, 3), (4, 3), (4, 2)):
            for (nparams, ncosts) in ((1, 1), (2, 2), (2, 1)):
                for s in streams:
                    if (N, G) in ((4, 3), (3, 3)) and s != streams[0]:
                        continue
                    b = 1 if (N * G >= 9) else bound
                    nparts = 4 if (tier == "thorough" or N * G >= 8) else 1
                    for part in range(nparts):
                        shards.append(("run", name, N, G, nparams, ncosts, s, b, part, nparts))
            shards.append(("script", name, N, G, seed))
            if (N, G) == (2, 1):       # long runs (cumulative effects): default execution of each base stream
                for (N2, G2) in ((4, 12), (10, 5), (3, 20)):
                    for st in streams:
                        for (npar, nc) in ((2, 2), (1, 1)):
                            shards.append(("run", name, N2, G2, npar, nc, st, 0, 0, 1))
            if (N, G) == (2, 1):       # beyond the small sizes: one base stream, every single deviation
                for (N2, G2) in ((5, 4), (7, 2), (6, 3)):
                    for part in range(6):
                        shards.append(("run", name, N2, G2, 2, 2, streams[0], 1 if tier == "thorough" else 0, part, 6))
                    shards.append(("run", name, N2, G2, 3, 1, streams[0], 0, 0, 1))
            if name in ("NSGAII", "EpsMOEA") and (N, G) in ((2, 2), (3, 3), (4, 3)):
                for constraint in ("always", "half", "bigcosts"):
                    for (nparams, ncosts) in ((1, 1), (2, 2)):
                        nparts = 4 if N * G >= 8 else 1
                        for part in range(nparts):
                            shards.append(("run", name, N, G, nparams, ncosts, streams[0], 1, part, nparts, constraint))
    # population sizes and generation counts far beyond the explored ones (default execution): sizes around the powers of two
    # and round numbers at which fast paths would switch on; with and without constraints
    for name in algs:
        for (N2, G2) in ((16, 3), (17, 3), (24, 6), (31, 2), (32, 2), (33, 3), (64, 2), (65, 2), (100, 2), (129, 2), (4, 40), (5, 70)) + (((257, 2), (8, 130)) if tier == "thorough" else ()):
            shards.append(("run", name, N2, G2, 2, 2, streams[0], 0, 0, 1))
            if name in ("NSGAII", "EpsMOEA") and N2 in (17, 33, 65):
                shards.append(("run", name, N2, G2, 2, 2, streams[0], 0, 0, 1, "half"))
    shards.append(("two", seed))
    shards.append(("rerun", seed))
    col = run_shards(_shard, shards)
    return col, {"exhaustive": col.counters.get("caps_hit", 0) == 0, "streams": streams}


RULE += (' One algorithm object run 2-3 times with changed N and G (six plans x four algorithms), each run judged on the designs it recorded itself; the stored record of a run read back through a view shows generations of exactly N designs.')

RULE += (' Beyond small: default execution with N in {16, 17, 24, 31, 32, 33, 64, 65, 100, 129} and G up to 70 (thorough N=257, G=130), constrained for N=17, 33, 65.')
