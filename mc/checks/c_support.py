"""Harness problems and small helpers shared by the checks."""
import atexit
import os
import tempfile

from ..core import common


def _problem_base():
    from artap.problem import Problem
    return Problem


_CLS = {}


def problem_class():
    """HProblem is created lazily so that artap is imported after quiet()."""
    if "c" in _CLS:
        return _CLS["c"]
    Problem = _problem_base()

    class HProblem(Problem):
        """Harness problem: objective = table/function owned by the harness; every call is logged."""

        def set(self, **kw):
            self.name = kw.get("name", "harness")
            n = kw.get("n_params", 1)
            bounds = kw.get("bounds") or [[0.0, 1.0]] * n
            extra = kw.get("param_extra") or [{}] * n
            self.parameters = []
            for i in range(n):
                p = {"name": kw.get("param_names", ["x%d" % j for j in range(n)])[i], "bounds": list(bounds[i])}
                p.update(extra[i] if i < len(extra) else {})
                self.parameters.append(p)
            crit = kw.get("criteria") or ["minimize"]
            self.costs = []
            for j, c in enumerate(crit):
                d = {"name": "f%d" % j}
                if c is not None:
                    d["criteria"] = c
                self.costs.append(d)
            self.h_f = kw.get("f") or (lambda v: [sum(x * x for x in v)] * 1)
            self.h_g = kw.get("g")
            self.h_log = []          # (id(individual), tuple(vector)) per objective call
            self.h_before = kw.get("before")   # callable(problem, individual) run before the objective (faults, sched)
            self.h_after = kw.get("after")

        def evaluate(self, individual):
            self.h_log.append((id(individual), tuple(individual.vector)))
            if self.h_before is not None:
                self.h_before(self, individual)
            res = self.h_f(list(individual.vector))
            if self.h_after is not None:
                self.h_after(self, individual)
            return res

        def evaluate_inequality_constraints(self, x):
            if self.h_g is None:
                return []
            return self.h_g(list(x))

    _CLS["c"] = HProblem
    return HProblem


def make_problem(**kw):
    common.scratch_root()
    cls = problem_class()
    predict = kw.pop("predict", None)
    if predict is not None:
        cls = type("HProblemPredict", (cls,), {"predict": lambda self, ind: predict(self, ind)})
    p = cls(**kw)
    atexit.unregister(p.cleanup)
    try:
        os.rmdir(p.working_dir)
    except OSError:
        pass
    return p


def reset_ids():
    """Every id counter the tree has starts afresh, as in a new process (a tree that gives subclasses their own counters is
    reset class by class; nothing is created on classes that have none)."""
    import sys
    from artap.individual import Individual
    Individual.counter = 0
    for modname in ("artap.algorithm_NSGAII", "artap.algorithm_genetic", "artap.algorithm_swarm"):
        mod = sys.modules.get(modname)
        if mod is None:
            continue
        for obj in vars(mod).values():
            if isinstance(obj, type) and issubclass(obj, Individual) and obj is not Individual and "counter" in obj.__dict__:
                obj.counter = 0


def own_tempdir():
    """Give the current (forked) process its own scratch sub-directory."""
    root = common.scratch_root()
    d = tempfile.mkdtemp(prefix="p%d-" % os.getpid(), dir=root)
    tempfile.tempdir = d
    return d


def quiet_problem(cls, **kw):
    """Instantiate one of artap's own Problem subclasses (benchmarks) without exit handlers / working dirs."""
    common.scratch_root()
    p = cls(**kw)
    atexit.unregister(p.cleanup)
    try:
        os.rmdir(p.working_dir)
    except OSError:
        pass
    return p


# ------------------------------------------------------------------------------------------------
# running artap's population algorithms under the random shim
# ------------------------------------------------------------------------------------------------
def std_objective(n_costs):
    def f(v):
        out = [sum((x - 0.25) ** 2 for x in v)]
        if n_costs >= 2:
            out.append(sum((x - 0.75) ** 2 for x in v) + 0.5 * v[0])
        return out[:n_costs]
    return f


def algorithm_class(name):
    if name == "NSGAII":
        from artap.algorithm_NSGAII import NSGAII
        return NSGAII
    if name == "EpsMOEA":
        from artap.algorithm_genetic import EpsMOEA
        return EpsMOEA
    from artap import algorithm_swarm as sw
    return {"OMOPSO": sw.OMOPSO, "SMPSO": sw.SMPSO, "PSOGA": sw.PSOGA}[name]


def run_algorithm(name, ctx, seed, N, G, n_params=1, n_costs=1, bounds=None, criteria=None, evaluator=None,
                  shim_cfg=None, before=None, after=None, f=None, g=None, param_extra=None, prepare=None, store_path=None):
    """One complete run() of a population algorithm on a fresh harness problem. Returns (problem, algorithm, exception)."""
    from ..core import shim as shim_mod
    reset_ids()
    bounds = bounds or [[0.0, 1.0]] * n_params
    criteria = criteria or ["minimize"] * n_costs
    problem = make_problem(n_params=n_params, bounds=bounds, criteria=criteria, f=f or std_objective(n_costs), g=g,
                           before=before, after=after, param_extra=param_extra)
    if store_path is not None:
        from artap.datastore import SqliteDataStore
        problem.data_store = SqliteDataStore(problem, database_name=store_path)
    cls = algorithm_class(name)
    sh = shim_mod.install()
    sh.reset(seed, ctx, **(shim_cfg or {}))
    exc = None
    alg = None
    try:
        if evaluator is not None and name in ("NSGAII", "EpsMOEA"):
            alg = cls(problem, evaluator_type=evaluator)
        else:
            alg = cls(problem)
        alg.options['max_population_number'] = G
        alg.options['max_population_size'] = N
        alg.options['verbose_level'] = 0
        if prepare is not None:
            prepare(problem, alg)
        alg.run()
    except BaseException as e:   # noqa
        from ..core.common import HarnessError
        from ..core.explorer import HorizonHit
        if isinstance(e, (HarnessError, KeyboardInterrupt)):
            raise
        if isinstance(e, HorizonHit):
            # tens of thousands of choice points in one small run: the algorithm is not terminating (livelock)
            from ..core.shim import DrawBudgetExceeded
            e = DrawBudgetExceeded("choice-point horizon reached: the run does not terminate")
        exc = e
    finally:
        sh.ctx = None
    return problem, alg, exc
