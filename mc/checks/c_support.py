"""Harness problems and small helpers shared by the checks."""
import atexit
import os
import tempfile

from ..core import common


def _problem_base():
    from artap.problem import Problem
    return Problem


_CLS = {}


def problem_class():
    """HProblem is created lazily so that artap is imported after quiet()."""
    if "c" in _CLS:
        return _CLS["c"]
    Problem = _problem_base()

    class HProblem(Problem):
        """Harness problem: objective = table/function owned by the harness; every call is logged."""

        def set(self, **kw):
            self.name = kw.get("name", "harness")
            n = kw.get("n_params", 1)
            bounds = kw.get("bounds") or [[0.0, 1.0]] * n
            extra = kw.get("param_extra") or [{}] * n
            self.parameters = []
            for i in range(n):
                p = {"name": "x%d" % i, "bounds": list(bounds[i])}
                p.update(extra[i] if i < len(extra) else {})
                self.parameters.append(p)
            crit = kw.get("criteria") or ["minimize"]
            self.costs = []
            for j, c in enumerate(crit):
                d = {"name": "f%d" % j}
                if c is not None:
                    d["criteria"] = c
                self.costs.append(d)
            self.h_f = kw.get("f") or (lambda v: [sum(x * x for x in v)] * 1)
            self.h_g = kw.get("g")
            self.h_log = []          # (id(individual), tuple(vector)) per objective call
            self.h_before = kw.get("before")   # callable(problem, individual) run before the objective (faults, sched)
            self.h_after = kw.get("after")

        def evaluate(self, individual):
            self.h_log.append((id(individual), tuple(individual.vector)))
            if self.h_before is not None:
                self.h_before(self, individual)
            res = self.h_f(list(individual.vector))
            if self.h_after is not None:
                self.h_after(self, individual)
            return res

        def evaluate_inequality_constraints(self, x):
            if self.h_g is None:
                return []
            return self.h_g(list(x))

    _CLS["c"] = HProblem
    return HProblem


def make_problem(**kw):
    common.scratch_root()
    cls = problem_class()
    predict = kw.pop("predict", None)
    if predict is not None:
        cls = type("HProblemPredict", (cls,), {"predict": lambda self, ind: predict(self, ind)})
    p = cls(**kw)
    atexit.unregister(p.cleanup)
    try:
        os.rmdir(p.working_dir)
    except OSError:
        pass
    return p


def reset_ids():
    from artap.individual import Individual
    Individual.counter = 0


def own_tempdir():
    """Give the current (forked) process its own scratch sub-directory."""
    root = common.scratch_root()
    d = tempfile.mkdtemp(prefix="p%d-" % os.getpid(), dir=root)
    tempfile.tempdir = d
    return d


def quiet_problem(cls, **kw):
    """Instantiate one of artap's own Problem subclasses (benchmarks) without exit handlers / working dirs."""
    common.scratch_root()
    p = cls(**kw)
    atexit.unregister(p.cleanup)
    try:
        os.rmdir(p.working_dir)
    except OSError:
        pass
    return p
