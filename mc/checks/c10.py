"""C10 -- SQLite store round-trips problem and individuals; one row per id, last synchronisation wins.

Explicit-state search over operation sequences (sync_individual / mutate / sync_all, a read-mode reopen after every
step) on a real store file, against a dict id -> last synchronised image; plus one run of every synchronising algorithm.
"""
import json
import math
import os
import sqlite3
import tempfile
from collections import deque

from ..core.common import Collector, run_shards

PROPERTY = "C10"
LEVEL = "model_checking"
RULE = ("BFS over operation histories to depth 4 (thorough 5; numpy values and the non-thread-safe store one less, rewrite mode two less): S(i) sync_individual, M(i) mutate individual i (new costs, population id, "
        "features, custom objects), P(i) mutate in place (same dict/list objects), A sync_all; four individuals (two sharing an id) with values from {0.0,-0.0,5e-324,2.2e-308,0.1,1/3,1.8e308,"
        "inf,-inf} as Python floats and numpy float64, costs_signed ending in a bool, features as NSGA-II / swarm / gradient / worst-case "
        "algorithms write them (incl. parent/child references and id lists), nested custom data; stores opened by the default constructor, with thread_safe=False and in rewrite mode; two recorded individuals at the same design point; problem definitions with names needing "
        "quoting and extra parameter keys. After EVERY operation the file is reopened with ProblemViewDataStore and with plain sqlite3 and "
        "compared with the reference dict id -> last synchronised image (floats by hex). states = distinct (file rows, in-memory mutation "
        "counters); plus one run() of NSGA-II, EpsMOEA, OMOPSO, SMPSO, PSOGA, Sweep, ScipyOpt, NLopt with a store; "
        "sync_individual while a second real connection holds the file EXCLUSIVE for the first k in {1..8,12,25,60} upsert attempts (timeout 0), in 5 history shapes, thread-safe and single-connection store; "
        "NSGA-II / EpsMOEA / SMPSO run twice on one problem and store with, in between, nothing / a read view of an older file with small ids / a write-mode open of it / a view of the file itself / Individual.from_dict of old rows: "
        "afterwards every recorded individual OBJECT is compared with the row of its id.")
ASSUMPTIONS = ["NaN, integer-valued numpy scalars and string-valued features are outside the stated input space",
               "state/algorithm_id/start and finish times are not among the fields the property lists for individuals (times are compared as "
               "ordinary feature values)"]

SPECIAL = [0.0, -0.0, 5e-324, 2.2250738585072014e-308, 0.1, 1.0 / 3.0, 1.7976931348623157e308, math.inf, -math.inf]


def fhex(x):
    return float(x).hex()


def norm(x):
    """Independent normalisation of what should come back from the store."""
    import numpy as np
    from artap.individual import Individual
    if isinstance(x, Individual):
        return ("i", x.id)
    if isinstance(x, (bool, np.bool_)):
        return ("b", bool(x))
    if isinstance(x, (int, np.integer)):
        return ("i", int(x))
    if isinstance(x, (float, np.floating)):
        return ("f", fhex(x))
    if x is None:
        return ("n",)
    if isinstance(x, str):
        return ("s", x)
    if isinstance(x, dict):
        return ("d", tuple(sorted((str(k), norm(v)) for k, v in x.items())))
    if isinstance(x, (list, tuple, np.ndarray)):
        return ("l", tuple(norm(v) for v in x))
    return ("?", repr(x))


def image(ind):
    return {"vector": norm(list(ind.vector)), "costs": norm(list(ind.costs)), "costs_signed": norm(list(ind.costs_signed)),
            "population_id": norm(ind.population_id), "custom": norm(ind.custom),
            "features": norm({k: v for k, v in ind.features.items()})}


def image_of_loaded(obj):
    return {"vector": norm(obj["vector"]), "costs": norm(obj["costs"]), "costs_signed": norm(obj["costs_signed"]),
            "population_id": norm(obj["population_id"]), "custom": norm(obj["custom"]), "features": norm(obj["features"])}


_DBS = {"n": 0, "old": []}


class LockShim:
    """Stands where artap.datastore sees the sqlite3 module. Connections get timeout 0 (a locked file answers at once instead
    of after five seconds); a real second connection holds a real EXCLUSIVE lock on the store file and lets go after the
    store has met `k` "database is locked" answers at its upsert statement."""

    def __init__(self):
        self.real = sqlite3
        self.holder = None
        self.left = 0
        self.met = 0

    def __getattr__(self, name):
        return getattr(sqlite3, name)

    def hold(self, db, k):
        self.holder = sqlite3.connect(db, timeout=0, isolation_level=None)
        self.blocked = None
        try:
            self.holder.execute("BEGIN EXCLUSIVE")
        except sqlite3.OperationalError as e:
            # the store itself still holds the file although its last synchronisation has returned (nothing committed)
            self.blocked = str(e)
            self.holder.close()
            self.holder = None
        self.left = k

    def release(self):
        if self.holder is not None:
            try:
                self.holder.execute("ROLLBACK")
            except sqlite3.OperationalError:
                pass
            self.holder.close()
            self.holder = None

    def connect(self, *args, **kw):
        shim = self
        kw.setdefault("timeout", 0)

        class Cur(sqlite3.Cursor):
            def execute(self, sql, *a):
                if shim.holder is not None and sql.lstrip().upper().startswith(("INSERT", "REPLACE", "UPDATE")):
                    if shim.left <= 0:
                        shim.release()
                    else:
                        shim.left -= 1
                        shim.met += 1
                return super().execute(sql, *a)

        class Con(sqlite3.Connection):
            def cursor(self, *a, **k):
                return super().cursor(Cur)
        kw["factory"] = Con
        return sqlite3.connect(*args, **kw)


def fresh_db(tag):
    """A new file name for every world: a connection of an earlier world that is closed late (kept alive by an exception's
    traceback, say) must not be able to touch the journal of the current one."""
    import gc
    _DBS["n"] += 1
    if len(_DBS["old"]) > 8:
        gc.collect()
        for old in _DBS["old"][:-2]:
            for ext in ("", "-journal"):
                if os.path.exists(old + ext):
                    os.remove(old + ext)
        _DBS["old"] = _DBS["old"][-2:]
    db = os.path.join(tempfile.gettempdir(), "%s-%d-%d.sqlite" % (tag, os.getpid(), _DBS["n"]))
    _DBS["old"].append(db)
    return db


def make_world(variant):
    """Fresh problem, store file and the four individuals."""
    import numpy as np
    from artap.datastore import SqliteDataStore
    from artap.individual import Individual
    from .c_support import make_problem, reset_ids
    reset_ids()
    extra = [{"tol": 0.1, "initial_value": 0.5, "note": 'quote " and \' ; -- DROP TABLE individuals'}, {"precision": 1e-3}]
    problem = make_problem(name='it\'s "x"; DROP TABLE main; --', n_params=2, bounds=[[0.0, 1.0], [-1e12, 1e12]],
                           criteria=["minimize", "maximize"], param_extra=extra)
    problem.parameters[0]["name"] = 'zeta_10'             # definition order differs from lexical order of the names
    problem.parameters[1]["name"] = 'alpha "quoted" é'
    problem.description = "multi\nline 'description'"
    problem.costs[0]["name"], problem.costs[1]["name"] = "weight", "efficiency"
    db = fresh_db("c10")
    # store variants: "float"/"numpy" use the default constructor; "nts" the non-thread-safe connection mode; "rewrite" the
    # rewrite mode on a file that already exists
    if variant == "nts":
        store = SqliteDataStore(problem, database_name=db, thread_safe=False)
    elif variant == "rewrite":
        open(db, "w").close()
        store = SqliteDataStore(problem, database_name=db, mode="rewrite")
    else:
        store = SqliteDataStore(problem, database_name=db)
    problem.data_store = store
    wrap = (lambda v: np.float64(v)) if variant == "numpy" else (lambda v: v)
    inds = []
    for k in range(4):
        ind = Individual([wrap(SPECIAL[(2 * k) % 9]), wrap(SPECIAL[(2 * k + 1) % 9])])
        inds.append(ind)
    inds[2].id = inds[1].id                      # two objects sharing an id
    inds[3].vector = list(inds[0].vector)        # two recorded individuals (different ids) at the same design point
    # features as the framework's algorithms write them
    a, b, c, d = inds
    a.features.update({'dominate': [b.id, d.id], 'crowding_distance': math.inf, 'domination_counter': 0, 'front_number': 1})
    b.features.update({'velocity': [wrap(0.0), wrap(-0.0)], 'best_cost': [wrap(1.0 / 3.0), True], 'best_vector': [0.1, 5e-324],
                       'front_number': -1, 'crowding_distance': 0})
    c.features.update({'gradient': np.array([5e-324, -math.inf]), 'sensitivity': wrap(1.7976931348623157e308)})
    c.children = [a, d]
    d.parents = [c]
    d.features['feasible'] = True
    d.state = Individual.State.IN_PROGRESS        # left 'in progress' by an exception its caller caught: still a recorded individual
    a.custom = {}
    b.custom = {"nested": {"list": [1, 2.5, None, True, "text"], "s": "x"}, "n": None}
    c.custom = {"k": [[-0.0, 5e-324], {"deep": [False]}]}
    for ind in inds:
        problem.individuals.append(ind)
    return problem, store, db, inds, wrap


def mutate(ind, count, wrap):
    """The count-th mutation of an individual (deterministic)."""
    k = (count * 3 + ind.id) % 9
    ind.costs = [wrap(SPECIAL[k]), wrap(SPECIAL[(k + 4) % 9])]
    ind.costs_signed = [wrap(SPECIAL[k]), wrap(-SPECIAL[(k + 4) % 9]), bool(count % 2)]
    ind.population_id = ind.population_id + 1
    ind.features['crowding_distance'] = math.inf if count % 2 else wrap(SPECIAL[(k + 1) % 9])
    ind.custom = {"mutation": count, "v": [SPECIAL[(k + 2) % 9]]}


def mutate_in_place(ind, count, wrap):
    """Changes that keep the container objects (no new dict / list is assigned): custom updated in place, one signed cost
    and one feature entry overwritten in place."""
    k = (count * 5 + ind.id) % 9
    ind.custom["in_place"] = count
    if ind.costs_signed:
        ind.costs_signed[0] = wrap(SPECIAL[k])
    else:
        ind.costs_signed.append(wrap(SPECIAL[k]))
        ind.costs_signed.append(True)
    v = ind.features.get('velocity')
    if isinstance(v, list) and v:
        v[0] = wrap(SPECIAL[(k + 3) % 9])
    else:
        ind.features['velocity'] = [wrap(SPECIAL[(k + 3) % 9])]


OPS = [("S", i) for i in range(4)] + [("M", i) for i in range(4)] + [("P", i) for i in (1, 3)] + [("A", None)]


def apply_history(history, variant):
    """Replay a history on a fresh world. Returns (violations, canon, world)."""
    shim = None
    if any(op == "LS" for op, _ in history):
        import artap.datastore as ds
        shim = LockShim()
        ds.sqlite3 = shim            # for the whole history: the non-thread-safe store keeps its first connection
    try:
        return _apply_history(history, variant, shim)
    finally:
        if shim is not None:
            shim.release()
            ds.sqlite3 = sqlite3


def _apply_history(history, variant, shim):
    problem, store, db, inds, wrap = make_world(variant)
    ref = {}                 # id -> image at the last synchronisation
    counts = [0, 0, 0, 0]
    pcounts = [0, 0, 0, 0]
    out = []
    for step, (op, i) in enumerate(history):
        try:
            if op == "S":
                store.sync_individual(inds[i])
                ref[inds[i].id] = image(inds[i])
            elif op == "LS":
                # sync_individual while another connection holds the file locked for the first k attempts
                from ..core.common import muted
                idx, k = i
                shim.met = 0
                try:
                    shim.hold(db, k)
                    with muted():
                        store.sync_individual(inds[idx])
                finally:
                    shim.release()
                if getattr(shim, "blocked", None):
                    out.append(("C10:locked:store-keeps-the-file-locked-after-a-synchronisation-returned", "a second connection cannot lock the file before the next synchronisation: %s" % shim.blocked))
                elif shim.met != k:
                    out.append(("C10:locked:harness", "the store met %d locked answers, %d were planned" % (shim.met, k)))
                ref[inds[idx].id] = image(inds[idx])
            elif op == "M":
                counts[i] += 1
                mutate(inds[i], counts[i], wrap)
            elif op == "P":
                pcounts[i] += 1
                mutate_in_place(inds[i], pcounts[i], wrap)
            else:
                store.sync_all()
                for ind in problem.individuals:
                    ref[ind.id] = image(ind)
        except Exception as e:
            out.append(("C10:op:exception:%s:%s" % (op, type(e).__name__), "history %r step %d raised %r" % (history, step, e)))
            return out, None
    try:
        out += observe(problem, db, ref, "history %r variant %s" % (history, variant))
        rows = read_rows(db)
    except sqlite3.Error as e:
        out.append(("C10:store-not-readable-after-sync:%s" % type(e).__name__,
                    "after history %r (variant %s) a second connection cannot read what was synchronised: %r" % (history, variant, e)))
        try:
            store.destroy()
        except Exception:
            pass
        return out, None
    canon = (tuple(sorted((rid, js) for rid, js in rows)), tuple(counts), tuple(pcounts))
    try:
        store.destroy()
    except Exception:
        pass
    return out, canon


def read_rows(db):
    con = sqlite3.connect(db)
    try:
        return con.execute("SELECT id, individual FROM individuals").fetchall()
    finally:
        con.close()


def observe(problem, db, ref, desc, allow_extra=False):
    """Reopen the file in read mode and compare with the reference."""
    from artap.problem import ProblemViewDataStore
    import atexit
    out = []
    rows = read_rows(db)
    ids = [r[0] for r in rows]
    if len(ids) != len(set(ids)):
        out.append(("C10:rows:duplicate-id", "ids %r; %s" % (ids, desc)))
    if (set(ref) - set(ids)) or (set(ids) != set(ref) and not allow_extra):
        kind = "missing" if set(ref) - set(ids) else "extra"
        out.append(("C10:rows:%s" % kind, "row ids %r, synchronised ids %r; %s" % (sorted(ids), sorted(ref), desc)))
    try:
        view = ProblemViewDataStore(database_name=db)
        atexit.unregister(view.cleanup)
        try:
            os.rmdir(view.working_dir)
        except OSError:
            pass
    except Exception as e:
        out.append(("C10:view:exception:%s" % type(e).__name__, "ProblemViewDataStore raised %r; %s" % (e, desc)))
        return out
    if view.name != problem.name or view.description != problem.description:
        out.append(("C10:view:name", "name %r / %r; %s" % (view.name, problem.name, desc)))
    if norm(view.parameters) != norm(problem.parameters):
        out.append(("C10:view:parameters", "parameters %r vs %r; %s" % (view.parameters, problem.parameters, desc)))
    if norm(view.costs) != norm(problem.costs):
        out.append(("C10:view:costs", "costs %r vs %r; %s" % (view.costs, problem.costs, desc)))
    got = {}
    for ind in view.individuals:
        got.setdefault(ind.id, []).append(ind)
    for iid, img in ref.items():
        if len(got.get(iid, [])) != 1:
            out.append(("C10:view:individual-count", "id %r appears %d times in the view; %s" % (iid, len(got.get(iid, [])), desc)))
            continue
        ind = got[iid][0]
        loaded = {"vector": norm(ind.vector), "costs": norm(ind.costs), "costs_signed": norm(ind.costs_signed),
                  "population_id": norm(ind.population_id), "custom": norm(ind.custom), "features": norm(ind.features)}
        for field in ("vector", "costs", "costs_signed", "population_id", "custom", "features"):
            if loaded[field] != img[field]:
                stale = "stale-or-wrong"
                out.append(("C10:view:field:%s" % field, "id %r field %s: stored %r, last synchronised %r; %s" % (
                    iid, field, loaded[field], img[field], desc)))
    try:
        view.data_store.destroy()
    except Exception:
        pass
    return out


def check_two_stores(h1, h2):
    """Two problems with their own store files, operated alternately: each file must hold exactly its own problem's data."""
    worlds = []
    out = []
    for variant in ("float", "nts"):
        problem, store, db, inds, wrap = make_world(variant)
        if worlds:                       # make the second problem distinguishable
            for k, ind in enumerate(inds):
                ind.id = 100 + (k if k != 2 else 1)
                ind.custom = {"world": 2, "k": k}
        worlds.append({"problem": problem, "store": store, "db": db, "inds": inds, "wrap": wrap, "ref": {}, "counts": [0, 0, 0, 0]})
    try:
        for k in range(max(len(h1), len(h2))):
            for w, h in zip(worlds, (h1, h2)):
                if k >= len(h):
                    continue
                op, i = h[k]
                if op == "S":
                    w["store"].sync_individual(w["inds"][i])
                    w["ref"][w["inds"][i].id] = image(w["inds"][i])
                elif op == "M":
                    w["counts"][i] += 1
                    mutate(w["inds"][i], w["counts"][i], w["wrap"])
                elif op == "P":
                    w["counts"][i] += 1
                    mutate_in_place(w["inds"][i], w["counts"][i], w["wrap"])
                else:
                    w["store"].sync_all()
                    for ind in w["problem"].individuals:
                        w["ref"][ind.id] = image(ind)
        for n, w in enumerate(worlds):
            out += [(k.replace("C10:", "C10:two-stores:", 1), m) for k, m in
                    observe(w["problem"], w["db"], w["ref"], "two stores operated alternately with %r / %r (store %d)" % (h1, h2, n + 1))]
    except Exception as e:
        out.append(("C10:two-stores:exception:%s" % type(e).__name__, "histories %r / %r raised %r" % (h1, h2, e)))
    for w in worlds:
        try:
            w["store"].destroy()
        except Exception:
            pass
    return out


def bfs(first, depth, variant, col):
    start = (first,)
    viol, canon = apply_history(start, variant)
    for key, msg in viol:
        col.violation(key, "history", msg, {"history": start, "variant": variant})
    seen = {canon}
    frontier = deque([start])
    transitions = 1
    while frontier:
        hist = frontier.popleft()
        if len(hist) >= depth:
            continue
        for op in OPS:
            nxt = hist + (op,)
            transitions += 1
            viol, canon = apply_history(nxt, variant)
            for key, msg in viol:
                col.violation(key, "history", msg, {"history": nxt, "variant": variant})
            col.case()
            if canon is not None and canon not in seen:
                seen.add(canon)
                frontier.append(nxt)
        if col.full:
            break
    for c in seen:
        col.add_to("states", (variant, c))
        col.nontrivial((variant, c))
    col.count("transitions", transitions)
    col.maxi("max_depth", depth)
    return len(seen)


def check_run(name, seed):
    """One run() with a store attached; afterwards every recorded individual has a row equal to its final data."""
    from .c_support import make_problem, reset_ids, run_algorithm
    from artap.datastore import SqliteDataStore
    db = fresh_db("c10run")
    desc = "run of %s with a store" % name
    if name in ("NSGAII", "EpsMOEA", "OMOPSO", "SMPSO", "PSOGA"):
        from ..core.explorer import Ctx
        problem, alg, exc = run_algorithm(name, None, seed, 3, 2, n_params=2, n_costs=2, store_path=db)
    else:
        reset_ids()
        problem = make_problem(n_params=2, bounds=[[-3.0, 3.0]] * 2, criteria=["minimize"],
                               f=lambda v: [sum((x - 0.3) ** 2 for x in v) + 0.123456789],
                               param_extra=[{"initial_value": 0.5}, {"initial_value": 1.5}])
        problem.data_store = SqliteDataStore(problem, database_name=db)
        exc = None
        try:
            if name == "Sweep":
                from artap.algorithm_sweep import SweepAlgorithm
                from artap.operators import UniformGenerator
                gen = UniformGenerator(problem.parameters)
                gen.init(3)
                alg = SweepAlgorithm(problem, generator=gen)
            elif name == "ScipyOpt":
                from artap.algorithm_scipy import ScipyOpt
                alg = ScipyOpt(problem)
                alg.options['n_iterations'] = 8
            else:
                import nlopt
                from artap.algorithm_nlopt import NLopt
                nlopt.srand(5 + seed)
                alg = NLopt(problem)
                alg.options['n_iterations'] = 8
            alg.options['verbose_level'] = 0
            alg.run()
        except Exception as e:
            exc = e
    if exc is not None:
        return [("C10:run:%s:exception:%s" % (name, type(exc).__name__), "%s raised %r" % (desc, exc))]
    ref = {}
    for ind in problem.individuals:
        ref[ind.id] = image(ind)
    from artap.datastore import DummyDataStore
    store = problem.data_store
    problem.data_store = DummyDataStore()
    out = [(k.replace("C10:", "C10:run:%s:" % name, 1), m) for k, m in observe(problem, db, ref, desc, allow_extra=True)]
    try:
        store.destroy()
    except Exception:
        pass
    return out


def observe_all(problem, db, desc):
    """Every recorded individual (object by object, not id by id) against the row with its id."""
    out = []
    rows = dict(read_rows(db))
    by_id = {}
    for ind in problem.individuals:
        by_id.setdefault(ind.id, []).append(ind)
    dup = {k: len(v) for k, v in by_id.items() if len(set(map(id, v))) > 1}
    for ind in problem.individuals:
        if ind.id not in rows:
            out.append(("C10:recorded:row-missing", "recorded individual id %r has no row; %s" % (ind.id, desc)))
            break
        loaded = image_of_loaded(json.loads(rows[ind.id]))
        img = image(ind)
        bad = [f for f in ("vector", "costs", "costs_signed", "population_id", "custom") if loaded[f] != img[f]]
        if bad:
            out.append(("C10:recorded:row-is-not-this-individual", "recorded individual id %r (vector %r): row differs in %r%s; %s" % (
                ind.id, list(ind.vector), bad, " -- %d recorded individuals share ids %r" % (sum(dup.values()), sorted(dup)[:5]) if dup else "", desc)))
            break
    return out


def check_two_runs(name, between, seed):
    """run(); something else happens to another store in the same process; run() again on the same problem and store."""
    from .c_support import make_problem, reset_ids, run_algorithm, algorithm_class
    from artap.datastore import SqliteDataStore, DummyDataStore
    from artap.individual import Individual
    from artap.problem import ProblemViewDataStore
    from ..core import shim as shim_mod
    import atexit
    desc = "%s run twice on one problem and store, in between: %s" % (name, between)
    out = []
    # an older, small results file (ids 0..2)
    reset_ids()
    old = make_problem(n_params=2, bounds=[[0.0, 1.0]] * 2, criteria=["minimize", "minimize"])
    old_db = fresh_db("c10old")
    old.data_store = SqliteDataStore(old, database_name=old_db)
    for k in range(3):
        ind = Individual([0.1 * k, 0.5])
        ind.costs = [float(k), 1.0]
        old.individuals.append(ind)
    old.data_store.sync_all()
    old.data_store.destroy()
    db = fresh_db("c10two")
    problem, alg, exc = run_algorithm(name, None, seed, 3, 2, n_params=2, n_costs=2, store_path=db)
    if exc is not None:
        return [("C10:tworuns:%s:exception:%s" % (name, type(exc).__name__), "%s: first run raised %r" % (desc, exc))]
    try:
        if between == "view_old":
            view = ProblemViewDataStore(database_name=old_db)
            atexit.unregister(view.cleanup)
            view.data_store.destroy()
        elif between == "write_old":
            other = make_problem(n_params=2, bounds=[[0.0, 1.0]] * 2, criteria=["minimize", "minimize"])
            other.data_store = SqliteDataStore(other, database_name=old_db)        # write mode on an existing file: loads it
            other.data_store.destroy()
        elif between == "view_self":
            view = ProblemViewDataStore(database_name=db)
            atexit.unregister(view.cleanup)
            view.data_store.destroy()
        elif between == "from_dict":
            for row in read_rows(old_db):
                Individual.from_dict(json.loads(row[1]))
        sh = shim_mod.install()
        sh.reset(seed + 1, None)
        try:
            alg2 = algorithm_class(name)(problem)
            alg2.options['max_population_number'] = 2
            alg2.options['max_population_size'] = 3
            alg2.options['verbose_level'] = 0
            alg2.run()
        finally:
            sh.ctx = None
    except Exception as e:
        return [("C10:tworuns:%s:exception:%s" % (name, type(e).__name__), "%s raised %r" % (desc, e))]
    store = problem.data_store
    problem.data_store = DummyDataStore()
    ids = [i.id for i in problem.individuals]
    if len(set(ids)) != len(ids) and len(set(map(id, problem.individuals))) == len(ids):
        out.append(("C10:tworuns:recorded-individuals-share-ids", "%d recorded individuals, %d distinct ids; %s" % (len(ids), len(set(ids)), desc)))
    out += [(k.replace("C10:", "C10:tworuns:", 1), m) for k, m in observe_all(problem, db, desc)]
    try:
        store.destroy()
    except Exception:
        pass
    return out


def check_mixed_classes(order, how):
    """Individuals of the framework's different classes (a sweep after an NSGA-II run, gradient children next to an NSGA-II
    population, swarm particles) recorded into ONE store: every recorded individual has its own row."""
    from .c_support import make_problem, reset_ids
    from .c20 import make_as
    from artap.datastore import SqliteDataStore, DummyDataStore
    reset_ids()
    problem = make_problem(n_params=2, bounds=[[0.0, 1.0]] * 2, criteria=["minimize", "minimize"])
    db = fresh_db("c10mixed")
    store = SqliteDataStore(problem, database_name=db)
    problem.data_store = store
    desc = "individuals of classes %r recorded into one store (%s)" % (order, how)
    try:
        for k, cls in enumerate(order):
            ind = make_as(cls, [0.1 * k, 0.5])
            ind.costs = [float(k), float(10 - k)]
            ind.costs_signed = [float(k), float(10 - k), True]
            ind.population_id = k % 3
            problem.individuals.append(ind)
            if how == "each":
                store.sync_individual(ind)
        if how == "all":
            store.sync_all()
    except Exception as e:
        return [("C10:mixed-classes:exception:%s" % type(e).__name__, "%s raised %r" % (desc, e))]
    problem.data_store = DummyDataStore()
    out = []
    ids = [i.id for i in problem.individuals]
    if len(set(ids)) != len(ids):
        out.append(("C10:mixed-classes:ids-not-unique", "%s: ids %r" % (desc, ids)))
    out += [(k.replace("C10:", "C10:mixed-classes:", 1), m) for k, m in observe_all(problem, db, desc)]
    try:
        store.destroy()
    except Exception:
        pass
    return out


def check_two_views(order):
    """Two store files with different problem definitions, both opened by read-mode views that stay alive: each view keeps
    returning ITS file's definitions and individuals, whichever was opened later."""
    import atexit
    from .c_support import make_problem, reset_ids
    from artap.datastore import SqliteDataStore
    from artap.individual import Individual
    from artap.problem import ProblemViewDataStore
    reset_ids()
    specs = [dict(n_params=2, bounds=[[0.0, 1.0], [-2.0, 2.0]], criteria=["minimize", "maximize"], param_names=["x_1", "x_2"]),
             dict(n_params=3, bounds=[[1.0, 2.0], [3.0, 4.0], [5.0, 6.0]], criteria=["maximize"], param_names=["width", "height", "length"])]
    files = []
    for k, spec in enumerate(specs):
        problem = make_problem(name="problem %d" % k, **spec)
        db = fresh_db("c10views%d" % k)
        store = SqliteDataStore(problem, database_name=db)
        for j in range(2 + k):
            ind = Individual([b[0] + 0.1 * j for b in spec["bounds"]])
            ind.costs = [float(10 * k + j)] * len(spec["criteria"])
            problem.individuals.append(ind)
        store.sync_all()
        store.destroy()
        files.append((db, problem))
    out = []
    views = {}
    try:
        for k in order:
            v = ProblemViewDataStore(database_name=files[k][0])
            atexit.unregister(v.cleanup)
            views[k] = v
        for k, v in views.items():
            want = files[k][1]
            if v.name != want.name or norm(v.parameters) != norm(want.parameters) or norm(v.costs) != norm(want.costs):
                out.append(("C10:two-views:definitions-of-another-file", "views opened in the order %r: the view of file %d reports name %r, parameters %r, costs %r" % (
                    order, k, v.name, [p.get("name") for p in v.parameters], [c.get("name") for c in v.costs])))
            if [norm(list(i.vector)) for i in v.individuals] != [norm(list(i.vector)) for i in want.individuals]:
                out.append(("C10:two-views:individuals-of-another-file", "views opened in the order %r: the view of file %d holds vectors %r" % (order, k, [list(i.vector) for i in v.individuals])))
    except Exception as e:
        out.append(("C10:two-views:exception:%s" % type(e).__name__, "order %r raised %r" % (order, e)))
    for v in views.values():
        try:
            v.data_store.destroy()
        except Exception:
            pass
    return out


def check_big_store(n, variant):
    """Stores with many individuals: single synchronisations, changes in memory, sync_all - every recorded individual's row
    holds its last synchronised data."""
    from .c_support import make_problem, reset_ids
    from artap.datastore import SqliteDataStore, DummyDataStore
    from artap.individual import Individual
    reset_ids()
    problem = make_problem(n_params=2, bounds=[[0.0, 1.0]] * 2, criteria=["minimize", "maximize"])
    db = fresh_db("c10big")
    store = SqliteDataStore(problem, database_name=db) if variant != "nts" else SqliteDataStore(problem, database_name=db, thread_safe=False)
    problem.data_store = store
    desc = "store with %d individuals (%s)" % (n, variant)
    try:
        for k in range(n):
            ind = Individual([k / float(n), 0.5])
            ind.costs = [float(k), 1.0 / (k + 1)]
            ind.costs_signed = [float(k), -1.0 / (k + 1), True]
            ind.population_id = k % 7
            problem.individuals.append(ind)
            if k % 3 == 0:
                store.sync_individual(ind)
        store.sync_all()
        for k, ind in enumerate(problem.individuals):       # results change in memory, then everything is synchronised again
            ind.population_id = 100 + k % 5
            ind.costs = [float(k) + 0.25, 2.0]
        store.sync_all()
    except Exception as e:
        return [("C10:big-store:exception:%s" % type(e).__name__, "%s raised %r" % (desc, e))]
    problem.data_store = DummyDataStore()
    out = [(k.replace("C10:", "C10:big-store:", 1), m[:300]) for k, m in observe_all(problem, db, desc)]
    if len(read_rows(db)) != n:
        out.append(("C10:big-store:row-count", "%s: %d rows" % (desc, len(read_rows(db)))))
    try:
        store.destroy()
    except Exception:
        pass
    return out


def check_sessions(name, seed, sessions=2):
    """Several sessions on ONE store file, each in a fresh interpreter as far as the id counter goes (it restarts at 0):
    a session opens the existing file in write mode (which loads it) and runs the algorithm. Afterwards every individual
    recorded in any session has its own row."""
    from .c_support import make_problem, reset_ids, algorithm_class, std_objective
    from artap.datastore import SqliteDataStore, DummyDataStore
    from artap.individual import Individual
    from ..core import shim as shim_mod
    db = fresh_db("c10sess")
    desc = "%d sessions of %s on one store file" % (sessions, name)
    recorded = []           # (id, image) of every individual recorded by any session, taken when the session ends
    out = []
    try:
        for sidx in range(sessions):
            Individual.counter = 0         # a new interpreter
            problem = make_problem(n_params=2, bounds=[[0.0, 1.0]] * 2, criteria=["minimize", "minimize"], f=std_objective(2))
            problem.data_store = SqliteDataStore(problem, database_name=db)
            loaded = len(problem.individuals)
            sh = shim_mod.install()
            sh.reset(seed + sidx, None)
            try:
                if name == "Sweep":
                    from artap.algorithm_sweep import SweepAlgorithm
                    from artap.operators import RandomGenerator
                    gen = RandomGenerator(problem.parameters)
                    gen.init(3)
                    alg = SweepAlgorithm(problem, generator=gen)
                else:
                    alg = algorithm_class(name)(problem)
                    alg.options['max_population_number'] = 2
                    alg.options['max_population_size'] = 3
                alg.options['verbose_level'] = 0
                alg.run()
            finally:
                sh.ctx = None
            for ind in problem.individuals[loaded:]:
                recorded.append((ind.id, image(ind), sidx))
            store = problem.data_store
            problem.data_store = DummyDataStore()
            store.destroy()
    except Exception as e:
        return [("C10:sessions:%s:exception:%s" % (name, type(e).__name__), "%s raised %r" % (desc, e))]
    rows = dict(read_rows(db))
    ids = [r[0] for r in recorded]
    if len(set(ids)) != len(ids):
        dup = sorted(set(i for i in ids if ids.count(i) > 1))
        out.append(("C10:sessions:ids-reused-by-a-later-session", "%s: ids %r were given to individuals of two sessions (one row per id: the earlier individual's row is overwritten)" % (desc, dup[:6])))
    for iid, img, sidx in recorded:
        if iid not in rows:
            out.append(("C10:sessions:row-missing", "%s: individual id %r of session %d has no row" % (desc, iid, sidx + 1)))
            break
        got = image_of_loaded(json.loads(rows[iid]))
        bad = [f for f in ("vector", "costs", "costs_signed", "population_id") if got[f] != img[f]]
        if bad:
            out.append(("C10:sessions:row-is-not-this-individual", "%s: the row of id %r does not hold the individual session %d recorded under that id (differs in %r)" % (desc, iid, sidx + 1, bad)))
            break
    return out


def _shard(shard, col: Collector):
    kind = shard[0]
    if kind == "bfs":
        _, first, depth, variant = shard
        n = bfs(first, depth, variant, col)
        col.sample({"kind": "bfs", "first_operation": first, "depth": depth, "values": variant, "states_in_this_shard": n,
                    "example_history": [first, ("M", 1), ("S", 2), ("A", None)][:depth]}, 2)
    elif kind == "two":
        base = [(("S", 0), ("M", 0), ("S", 0), ("A", None)), (("S", 1), ("S", 2), ("P", 1), ("S", 1)), (("A", None), ("M", 3), ("S", 3)),
                (("S", 3), ("S", 0), ("M", 0), ("A", None), ("P", 3), ("S", 3))]
        for h1 in base:
            for h2 in base:
                col.case()
                col.nontrivial(("two", h1, h2))
                for key, msg in check_two_stores(h1, h2):
                    col.violation(key, "two", msg, {"h1": h1, "h2": h2})
        col.sample({"kind": "two stores operated alternately", "h1": base[0], "h2": base[1]}, 1)
    elif kind == "long":
        # long periodic histories: every operation triple repeated four times (12 operations)
        _, first = shard
        for b in OPS[::2]:
            for c in OPS[1::3]:
                hist = ((first, b, c) * 4)
                col.case()
                col.count("long_histories")
                viol, canon = apply_history(hist, "float")
                if canon is not None:
                    col.nontrivial(("long", canon))
                for key, msg in viol:
                    col.violation(key, "history", msg, {"history": hist, "variant": "float"})
        col.sample({"kind": "long periodic history", "period": [first, OPS[0], OPS[1]], "repeats": 4}, 1)
    elif kind == "locked":
        # a synchronisation that meets k "database is locked" answers (another connection holds the file) returns only
        # after the row is written
        _, variant = shard
        for k in (1, 2, 3, 4, 5, 6, 7, 8, 12, 25, 60):
            for hist in ((("LS", (0, k)),), (("S", 0), ("M", 0), ("LS", (0, k))), (("LS", (1, k)), ("LS", (2, k))),
                         (("A", None), ("P", 3), ("LS", (3, k)), ("M", 3), ("LS", (3, 1))), (("LS", (0, k)), ("M", 0), ("A", None))):
                col.case()
                col.count("locked_histories")
                viol, canon = apply_history(hist, variant)
                if canon is not None:
                    col.nontrivial(("locked", variant, k, canon))
                for key, msg in viol:
                    col.violation(key.replace("C10:", "C10:locked:", 1) if not key.startswith("C10:locked") else key, "history", msg,
                                  {"history": hist, "variant": variant})
        col.sample({"kind": "synchronisation under a foreign lock", "variant": variant, "locked_answers": [1, 8, 60]}, 1)
    elif kind == "twoviews":
        for order in ((0, 1), (1, 0), (0, 1, 0), (1, 0, 1), (0, 0, 1)):
            col.case()
            col.nontrivial(("twoviews", order))
            for key, msg in check_two_views(order):
                col.violation(key, "twoviews", msg, {"order": order})
        col.sample({"kind": "two read-mode views alive at once", "orders": [[0, 1], [1, 0]]}, 1)
    elif kind == "bigstore":
        _, n, variant = shard
        col.case()
        col.nontrivial(("bigstore", n, variant))
        for key, msg in check_big_store(n, variant):
            col.violation(key, "bigstore", msg, {"n": n, "variant": variant})
        col.sample({"kind": "store with many individuals", "n": n}, 1)
    elif kind == "mixed":
        import itertools as _it
        classes = ("Individual", "IndividualNSGAII", "IndividualEpsMOEA", "IndividualSwarm")
        for n in (2, 3, 4):
            for order in _it.product(classes, repeat=n):
                if len(set(order)) < 2 or (n == 4 and len(set(order)) < 4):
                    continue
                for how in ("each", "all"):
                    col.case()
                    col.nontrivial(("mixed", order, how))
                    for key, msg in check_mixed_classes(order, how):
                        col.violation(key, "mixed", msg, {"order": order, "how": how})
        col.sample({"kind": "individuals of different classes in one store", "classes": list(classes)}, 1)
    elif kind == "sessions":
        _, name, seed, n = shard
        col.case()
        col.nontrivial(("sessions", name, n))
        col.count("algorithm_runs", n)
        for key, msg in check_sessions(name, seed, n):
            col.violation(key, "sessions", msg, {"name": name, "seed": seed, "sessions": n})
    elif kind == "tworuns":
        _, name, between, seed = shard
        col.case()
        col.nontrivial(("tworuns", name, between))
        col.count("algorithm_runs", 2)
        for key, msg in check_two_runs(name, between, seed):
            col.violation(key, "tworuns", msg, {"name": name, "between": between, "seed": seed})
    elif kind == "run":
        _, name, seed = shard
        col.case()
        col.nontrivial(("run", name))
        col.count("algorithm_runs")
        for key, msg in check_run(name, seed):
            col.violation(key, "run", msg, {"name": name, "seed": seed})


def replay(sub, case):
    if sub == "history":
        hist = tuple((op, tuple(i) if isinstance(i, list) else i) for op, i in case["history"])
        return apply_history(hist, case["variant"])[0]
    if sub == "two":
        tt = lambda h: tuple((op, i) for op, i in h)
        return check_two_stores(tt(case["h1"]), tt(case["h2"]))
    if sub == "run":
        return check_run(case["name"], case["seed"])
    if sub == "twoviews":
        return check_two_views(tuple(case["order"]))
    if sub == "bigstore":
        return check_big_store(case["n"], case["variant"])
    if sub == "mixed":
        return check_mixed_classes(tuple(case["order"]), case["how"])
    if sub == "sessions":
        return check_sessions(case["name"], case["seed"], case["sessions"])
    if sub == "tworuns":
        return check_two_runs(case["name"], case["between"], case["seed"])
    raise ValueError(sub)


def run(tier, seed):
    import artap.algorithm_NSGAII, artap.algorithm_swarm, artap.algorithm_scipy, artap.algorithm_nlopt, artap.algorithm_sweep  # noqa
    depth = 5 if tier == "thorough" else 4
    shards = []
    for variant, dd in (("float", depth), ("numpy", depth - 1), ("nts", depth - 1), ("rewrite", depth - 2)):
        for op in OPS:
            shards.append(("bfs", op, dd, variant))
    for name in ("NSGAII", "EpsMOEA", "OMOPSO", "SMPSO", "PSOGA", "Sweep", "ScipyOpt", "NLopt"):
        shards.append(("run", name, seed))
    shards.append(("two",))
    for variant in ("float", "nts"):
        shards.append(("locked", variant))
    shards.append(("mixed",))
    shards.append(("twoviews",))
    for n in (100, 257, 512, 513, 600, 1000, 1001, 1025, 1200) + ((2049, 5000) if tier == "thorough" else ()):
        shards.append(("bigstore", n, "float"))
    shards.append(("bigstore", 700, "nts"))
    for name in ("NSGAII", "EpsMOEA", "SMPSO", "Sweep"):
        for n in (2, 3):
            shards.append(("sessions", name, seed, n))
    for name in ("NSGAII", "EpsMOEA", "SMPSO"):
        for between in ("none", "view_old", "write_old", "view_self", "from_dict"):
            shards.append(("tworuns", name, between, seed))
    for op in OPS:
        shards.append(("long", op))
    col = run_shards(_shard, shards)
    return col, {"exhaustive": True, "states": len(col.sets.get("states", ())), "transitions": col.counters.get("transitions", 0),
                 "traces_validated_against_impl": col.counters.get("transitions", 0), "depth": depth}

RULE += (' Beyond small: stores with 100..1200 (thorough 5000) individuals written singly and by sync_all, changed and written again; individuals of different classes in one store; two read-mode views alive at once; 2-3 sessions on one file.')
