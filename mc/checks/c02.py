"""C02 -- non-dominated sorting assigns every individual its true Pareto rank.

Every sequence (so every input order) of cost vectors over the listed alphabets, bounded length; coverage is counted
in labelled dominance relations realised (compare with the number of labelled posets 1, 3, 19, 219, 4231).
"""
import itertools

from ..core.common import Collector, run_shards
from ..core.refmodels import ref_dominance, ref_ranks

PROPERTY = "C02"
LEVEL = "exploration"
RULE = ("every sequence of length n over the alphabet (all input orders): quick V3^2 x {F,T} n<=4, V3 x {F,T} n<=6, "
        "{0,1}^3 x {T} n<=5; thorough adds V5^2 x {T} n<=5 and V3^2 x {F,T} n=5. populations of <=5 over costs that differ by 1e-9 or one ulp; populations of 6-7 (thorough 8-9) over a 2x2 grid and over a 4-symbol one-objective alphabet; also every permutation of the creation (id) order for n=3 (all) and n=4 over a 6-symbol alphabet. Oracle: rank by the recursive "
        "definition. distinct_nontrivial = number of distinct labelled dominance relations (verdict matrices) realised "
        "that contain at least one dominance pair; evaluations = sequences sorted.")
ASSUMPTIONS = ["the sorter sees costs only through the comparator verdicts (C01 checks the comparator)",
               "one selector object sorts every population of a shard, and ids repeat from population to population (distinct objects)",
               "individual ids are unique within a population (as produced by Individual.counter)"]

V3 = (0.0, 1.0, 2.0)
V5 = (0.0, 1.0, 2.0, 3.0, 4.0)


def alphabet(name):
    if name == "V3x2F":
        return [(a, b, f) for a in V3 for b in V3 for f in (False, True)]
    if name == "V3x1F":
        return [(a, f) for a in V3 for f in (False, True)]
    if name == "B3":
        return [(a, b, c, True) for a in (0.0, 1.0) for b in (0.0, 1.0) for c in (0.0, 1.0)]
    if name == "Q4":      # 2x2 grid: chains, ties and incomparable pairs
        return [(0.0, 0.0, True), (0.0, 1.0, True), (1.0, 0.0, True), (1.0, 1.0, True)]
    if name == "L3F":     # one objective, three values, both markers: long chains and many duplicates
        return [(0.0, False), (1.0, False), (1.0, True), (2.0, True)]
    if name == "NEAR":    # costs that differ by 1e-9 / by one ulp: still strictly ordered
        import math
        a = 1.0
        return [(a, a, True), (a + 1e-9, a, True), (a, a + 1e-9, True), (math.nextafter(a, 2.0), math.nextafter(a, 2.0), True), (a + 2e-9, a + 2e-9, False)]
    if name == "TINY":    # costs below machine epsilon apart in absolute terms: still strictly ordered
        import math
        return [(0.0, 0.0, True), (1e-17, 1e-17, True), (2e-17, 5e-324, True), (0.1, 0.0, True), (math.nextafter(0.1, 1.0), 1e-17, True)]
    if name == "S6":
        return [(0.0, 0.0, True), (0.0, 1.0, True), (1.0, 0.0, True), (1.0, 1.0, True), (2.0, 0.0, True), (0.0, 2.0, True)]
    if name == "V5x2":
        return [(a, b, True) for a in V5 for b in V5]
    raise ValueError(name)


_sel = []
import collections
_KEEP = collections.deque(maxlen=6)      # the last populations stay referenced, as they do inside an algorithm run


def selector():
    """One selector object per process; which class it is alternates between processes (the sorter is inherited by all)."""
    if not _sel:
        import os
        from artap.operators import DummySelector, TournamentSelector, CopySelector
        cls = (DummySelector, TournamentSelector, CopySelector)[os.getpid() % 3]
        _sel.append(cls([]))
    return _sel[0]


def sort_population(costs, order=None):
    """order: permutation giving the creation order of the list positions (ids follow creation order)."""
    from artap.individual import Individual
    # ids restart for every population (as after deepcopy / reload from a store): they are unique within a population,
    # but the one selector object used for the whole enumeration sees the same ids again on different objects
    Individual.counter = 0
    pop = [None] * len(costs)
    for pos in (order if order is not None else range(len(costs))):
        ind = Individual([0.0])
        ind.costs_signed = list(costs[pos])
        pop[pos] = ind
    selector().fast_nondominated_sorting(pop)
    _KEEP.append(pop)
    return pop


def check_case(costs, order=None):
    out = []
    try:
        pop = sort_population(costs, order)
    except Exception as e:
        return [("C02:exception:%s" % type(e).__name__, "sorting %r raised %r" % (costs, e))]
    got = [p.features.get('front_number') for p in pop]
    exp = ref_ranks(costs)
    if got != exp:
        if any(g is None for g in got):
            key = "C02:unranked"
        else:
            dup = len(set(map(tuple, costs))) < len(costs)
            key = "C02:rank:n=%d:%s%s" % (len(costs), "dup" if dup else "nodup", ":ids-not-in-list-order" if order is not None else "")
        out.append((key, "costs %r (creation order %r): front numbers %r, definition %r" % (costs, order, got, exp)))
    return out


def check_copies(costs_a, extra, how):
    """A sorted population; copies of its members (as NSGA-II makes them every generation) are sorted again together with
    new designs. The second sorting is correct AND leaves the ranks already assigned to the first population alone."""
    import copy
    from artap.algorithm_NSGAII import IndividualNSGAII
    from artap.algorithm_swarm import IndividualSwarm
    from artap.individual import Individual
    cls = IndividualSwarm if how == "swarm_copy" else IndividualNSGAII
    Individual.counter = 0
    pop_a = []
    for c in costs_a:
        ind = cls([0.0])
        ind.costs_signed = list(c)
        pop_a.append(ind)
    out = []
    try:
        selector().fast_nondominated_sorting(pop_a)
        ranks_a = [p.features.get('front_number') for p in pop_a]
        if how == "deepcopy":
            pop_b = [copy.deepcopy(p) for p in pop_a]
        else:
            pop_b = [p.copy() for p in pop_a]
            for p, q in zip(pop_a, pop_b):
                q.costs_signed = list(p.costs_signed)
        for c in extra:
            ind = cls([0.0])
            ind.costs_signed = list(c)
            pop_b.append(ind)
        selector().fast_nondominated_sorting(pop_b)
    except Exception as e:
        return [("C02:copies:exception:%s" % type(e).__name__, "sorting %r then copies + %r raised %r" % (costs_a, extra, e))]
    _KEEP.append(pop_a)
    _KEEP.append(pop_b)
    if ranks_a != ref_ranks(list(costs_a)):
        out.append(("C02:copies:first-sort", "costs %r: front numbers %r, definition %r" % (costs_a, ranks_a, ref_ranks(list(costs_a)))))
    got_b = [p.features.get('front_number') for p in pop_b]
    exp_b = ref_ranks(list(costs_a) + list(extra))
    if got_b != exp_b:
        out.append(("C02:copies:second-sort:%s" % how, "copies (%s) of %r plus %r: front numbers %r, definition %r" % (how, costs_a, extra, got_b, exp_b)))
    now_a = [p.features.get('front_number') for p in pop_a]
    if now_a != ranks_a:
        out.append(("C02:copies:ranks-of-an-earlier-population-rewritten:%s" % how,
                    "population %r was ranked %r; after sorting its copies (%s) together with %r its own front numbers read %r" % (costs_a, ranks_a, how, extra, now_a)))
    return out


def check_mixed_classes(costs, rot):
    """A population that mixes the individual classes of the framework (results of two algorithms ranked together, stored
    designs next to fresh offspring): ranks by definition."""
    from .c20 import make_as, CLASSES
    from artap.individual import Individual
    from artap.algorithm_NSGAII import IndividualNSGAII
    from artap.algorithm_genetic import IndividualEpsMOEA
    from artap.algorithm_swarm import IndividualSwarm
    for cls in (Individual, IndividualNSGAII, IndividualEpsMOEA, IndividualSwarm):
        if "counter" in cls.__dict__:          # every id counter the tree has starts afresh (as in a new process)
            cls.counter = 0
    pop = []
    for j, c in enumerate(costs):
        ind = make_as(CLASSES[(j + rot) % len(CLASSES)], [0.0])
        ind.costs_signed = list(c)
        pop.append(ind)
    try:
        selector().fast_nondominated_sorting(pop)
    except Exception as e:
        return [("C02:mixed-classes:exception:%s" % type(e).__name__, "sorting %r (classes rotated by %d) raised %r" % (costs, rot, e))]
    _KEEP.append(pop)
    got = [p.features.get('front_number') for p in pop]
    exp = ref_ranks(list(costs))
    if got != exp:
        return [("C02:mixed-classes:rank", "costs %r carried by %r: front numbers %r, definition %r (ids %r)" % (
            costs, [type(p).__name__ for p in pop], got, exp, [p.id for p in pop]))]
    return []


def check_after_aborted_sort(costs, bad_pos, variant):
    """One member carries a broken cost vector (None, or a vector of another length): the sort raises. The caller repairs the
    member and sorts again: ranks by definition, nothing left over from the aborted attempt."""
    from artap.individual import Individual
    Individual.counter = 0
    pop = []
    for c in costs:
        ind = Individual([0.0])
        ind.costs_signed = list(c)
        pop.append(ind)
    good = list(pop[bad_pos].costs_signed)
    pop[bad_pos].costs_signed = [None] + good[1:] if variant == "none" else good[:-2] + good[-1:]
    sel = selector()
    try:
        sel.fast_nondominated_sorting(pop)
    except Exception:
        pass
    pop[bad_pos].costs_signed = good
    try:
        sel.fast_nondominated_sorting(pop)
    except Exception as e:
        return [("C02:after-aborted-sort:exception:%s" % type(e).__name__, "sorting the repaired population %r raised %r" % (costs, e))]
    _KEEP.append(pop)
    got = [p.features.get('front_number') for p in pop]
    exp = ref_ranks(list(costs))
    if got != exp:
        return [("C02:after-aborted-sort:rank", "costs %r (member %d was broken during a first, aborted sort): front numbers %r, definition %r" % (costs, bad_pos, got, exp))]
    return []


def check_option_selector(costs, variant):
    """The sorter of selectors built with constructor options ranks by constrained Pareto dominance like any other."""
    from artap.individual import Individual
    from artap.operators import TournamentSelector, EpsilonDominance, ParetoDominance
    params = [{"name": "x", "bounds": [0.0, 1.0]}]
    if variant == "eps_class":
        sel = TournamentSelector(params, dominance=EpsilonDominance, epsilons=[0.5, 0.5])
    elif variant == "eps_list":
        sel = TournamentSelector(params, epsilons=[0.5, 2.0])
    else:
        sel = TournamentSelector(params, dominance=ParetoDominance, epsilons=0.25)
    Individual.counter = 0
    pop = []
    for c in costs:
        ind = Individual([0.0])
        ind.costs_signed = list(c)
        pop.append(ind)
    try:
        sel.fast_nondominated_sorting(pop)
    except Exception as e:
        return [("C02:option-selector:exception:%s" % type(e).__name__, "sorting %r with %s raised %r" % (costs, variant, e))]
    got = [p.features.get('front_number') for p in pop]
    exp = ref_ranks(list(costs))
    if got != exp:
        return [("C02:option-selector:rank:%s" % variant, "TournamentSelector built with options (%s): costs %r front numbers %r, definition %r" % (variant, costs, got, exp))]
    return []


BIG_SIZES = (31, 32, 33, 63, 64, 65, 100, 127, 128, 129, 255, 256, 257, 1000, 1025)


def big_population(family, n):
    """Structured populations far beyond the enumerated sizes."""
    if family == "chain":            # n fronts of one member, listed from worst to best
        return [(float(n - i), float(n - i), True) for i in range(n)]
    if family == "antichain":        # one front of n members
        return [(float(i), float(n - i), True) for i in range(n)]
    if family == "grid":             # sqrt(n) x sqrt(n) grid plus a tail: many fronts of growing and shrinking size
        k = int(n ** 0.5)
        pts = [(float(i), float(j), True) for i in range(k) for j in range(k)]
        return (pts + [(float(k + i), 0.0, True) for i in range(n - len(pts))])[:n]
    if family == "dups":             # every cost vector twice, half of the population infeasible
        return [(float(i // 2 % 7), float((i // 2 * 3) % 5), (i % 4) < 2) for i in range(n)]
    if family == "twolevel":         # a small front that dominates one big front
        return [(0.0, 0.0, True)] + [(1.0 + i, float(n - i), True) for i in range(n - 1)]
    # "lcg": pseudo-random integer costs from a fixed linear congruential sequence
    out, x = [], 12345 + n
    for i in range(n):
        x = (1103515245 * x + 12345) % (2 ** 31)
        a = x % 17
        x = (1103515245 * x + 12345) % (2 ** 31)
        out.append((float(a), float(x % 13), (x // 7) % 5 != 0))
    return out


def relation_code(costs):
    n = len(costs)
    code = 0
    for i in range(n):
        for j in range(n):
            code = code * 2 + (1 if ref_dominance(costs[i], costs[j]) == 1 else 0)
    return code


def _shard(shard, col: Collector):
    if shard[0] == "big":
        _, n = shard
        for family in ("chain", "antichain", "grid", "dups", "twolevel", "lcg"):
            if n >= 1000 and family in ("grid", "dups", "twolevel"):
                continue
            costs = big_population(family, n)
            for order in ("as-listed", "reversed"):
                cs = costs if order == "as-listed" else costs[::-1]
                col.case()
                col.nontrivial(("big", family, n, order))
                col.count("large_populations")
                for k, msg in check_case(cs):
                    col.violation(k.replace(":n=%d" % n, ":large-population") + ":" + family, "big", msg[:600], {"family": family, "n": n, "order": order})
        col.sample({"kind": "large structured populations", "n": n, "families": ["chain", "antichain", "grid", "dups", "twolevel", "lcg"]}, 1)
        return
    if shard[0] == "copies":
        _, how, first = shard
        alpha = alphabet("V3x2F")
        small = [a for a in alpha if a[-1]][::2] + [alpha[0]]
        for n in (1, 2, 3):
            for rest in itertools.product(alpha if n < 3 else small, repeat=n - 1):
                costs_a = (first,) + rest
                for k in (0, 1, 2):
                    for extra in itertools.product(small, repeat=k):
                        col.case()
                        col.nontrivial(("copies", how, costs_a, extra))
                        for key, msg in check_copies(costs_a, extra, how):
                            col.violation(key, "copies", msg, {"costs_a": costs_a, "extra": extra, "how": how})
        col.sample({"kind": "sorted population, then its copies sorted with newcomers", "how": how, "first": list(first)}, 1)
        return
    if shard[0] == "aborted":
        alpha = alphabet("V3x2F")[1::2]
        for n in (2, 3, 4):
            for costs in itertools.product(alpha, repeat=n):
                for bad_pos in range(n):
                    for variant in ("none", "short"):
                        col.case()
                        col.nontrivial(("aborted", costs, bad_pos, variant))
                        for key, msg in check_after_aborted_sort(costs, bad_pos, variant):
                            col.violation(key, "aborted", msg, {"costs": costs, "bad_pos": bad_pos, "variant": variant})
        col.sample({"kind": "sort aborted by a broken member, repaired, sorted again"}, 1)
        return
    if shard[0] == "mixedcls":
        _, rot = shard
        alpha = alphabet("V3x2F")
        for n in (2, 3, 4):
            for costs in itertools.product(alpha if n < 4 else alpha[::2], repeat=n):
                col.case()
                col.nontrivial(("mixedcls", rot, costs))
                for key, msg in check_mixed_classes(costs, rot):
                    col.violation(key, "mixedcls", msg, {"costs": costs, "rot": rot})
        col.sample({"kind": "populations mixing individual classes", "rotation": rot}, 1)
        return
    if shard[0] == "optsel":
        _, variant = shard
        alpha = alphabet("V3x2F")
        for n in (1, 2, 3, 4):
            for costs in itertools.product(alpha if n < 4 else alpha[::2], repeat=n):
                col.case()
                col.nontrivial(("optsel", variant, costs))
                for key, msg in check_option_selector(costs, variant):
                    col.violation(key, "optsel", msg, {"costs": costs, "variant": variant})
        col.sample({"kind": "selector built with constructor options", "variant": variant}, 1)
        return
    if shard[0] == "perm":
        # list order differs from creation (id) order: every permutation of the creation order
        _, name, n, fixed = shard
        alpha = alphabet(name)
        perms = list(itertools.permutations(range(n)))[1:]
        for rest in itertools.product(alpha, repeat=n - len(fixed)):
            costs = list(fixed) + list(rest)
            exp = ref_ranks(costs)
            for order in perms:
                col.case()
                col.count("permuted_creation_order_cases")
                try:
                    got = [p.features.get('front_number') for p in sort_population(costs, order)]
                except Exception:
                    got = None
                if got != exp:
                    for k, msg in check_case(costs, order):
                        col.violation(k, "sort", msg, {"costs": costs, "order": order})
        col.sample({"alphabet": name, "n": n, "costs": list(fixed) + [alpha[-1]] * (n - len(fixed)), "creation_order": list(perms[-1])}, 1)
        return
    name, n, fixed = shard
    alpha = alphabet(name)
    memo = {}
    for rest in itertools.product(alpha, repeat=n - len(fixed)):
        costs = list(fixed) + list(rest)
        col.case()
        pop = None
        bad = False
        try:
            pop = sort_population(costs)
            got = [p.features.get('front_number') for p in pop]
        except Exception:
            bad = True
            got = None
        key = tuple(costs)
        exp = ref_ranks(costs)
        code = relation_code(costs)
        if code:
            col.add_to("rel_n%d" % n, code)
            col.nontrivial((n, code))
        if bad or got != exp:
            for k, msg in check_case(costs):
                col.violation(k, "sort", msg, {"costs": costs})
    col.sample({"alphabet": name, "n": n, "costs": list(fixed) + [alpha[-1]] * (n - len(fixed))}, 1)


def replay(sub, case):
    if sub == "big":
        costs = big_population(case["family"], case["n"])
        return check_case(costs if case["order"] == "as-listed" else costs[::-1])
    if sub == "copies":
        return check_copies(tuple(tuple(c) for c in case["costs_a"]), tuple(tuple(c) for c in case["extra"]), case["how"])
    if sub == "aborted":
        return check_after_aborted_sort(tuple(tuple(c) for c in case["costs"]), case["bad_pos"], case["variant"])
    if sub == "mixedcls":
        return check_mixed_classes(tuple(tuple(c) for c in case["costs"]), case["rot"])
    if sub == "optsel":
        return check_option_selector(tuple(tuple(c) for c in case["costs"]), case["variant"])
    return check_case([tuple(c) for c in case["costs"]], tuple(case["order"]) if case.get("order") else None)


def run(tier, seed):
    shards = []

    def add(name, n, split):
        alpha = alphabet(name)
        split = min(split, n)
        for fixed in itertools.product(alpha, repeat=split):
            shards.append((name, n, fixed))
    for n in (1, 2, 3):
        add("V3x2F", n, 0)
    add("V3x2F", 4, 1)
    for n in (1, 2, 3, 4, 5):
        add("V3x1F", n, 0)
    add("V3x1F", 6, 1)
    for n in (1, 2, 3, 4):
        add("B3", n, 0)
    add("B3", 5, 1)
    for n in (2, 3, 4):
        add("NEAR", n, 0)
    add("NEAR", 5, 1)
    for n in (2, 3, 4):
        add("TINY", n, 0)
    add("Q4", 6, 1)
    add("Q4", 7, 2)
    add("L3F", 7, 2)
    if tier == "thorough":
        add("L3F", 8, 2)
        add("Q4", 8, 2)
        add("L3F", 9, 2)
    for a in alphabet("V3x2F"):
        shards.append(("perm", "V3x2F", 3, (a,)))
    for a in alphabet("S6"):
        shards.append(("perm", "S6", 4, (a,)))
    if tier == "thorough":
        for a in alphabet("S6"):
            for b in alphabet("S6"):
                shards.append(("perm", "S6", 5, (a, b)))
        add("V5x2", 5, 2)
        add("V5x2", 4, 1)
        add("V3x2F", 5, 2)
    for how in ("nsga2_copy", "swarm_copy", "deepcopy"):
        for a in alphabet("V3x2F")[:: (1 if tier == "thorough" else 3)]:
            shards.append(("copies", how, a))
    for variant in ("eps_class", "eps_list", "pareto_scalar"):
        shards.append(("optsel", variant))
    for n in BIG_SIZES:
        if n < 1000 or tier == "thorough":       # sorting a chain of a thousand takes artap most of a minute
            shards.append(("big", n))
    for rot in range(5):
        shards.append(("mixedcls", rot))
    shards.append(("aborted",))
    col = run_shards(_shard, shards)
    posets = {1: 1, 2: 3, 3: 19, 4: 219, 5: 4231}
    realised = {k: len(v) + 1 for k, v in col.sets.items() if k.startswith("rel_n")}  # +1: the empty relation
    extra = {"exhaustive": True,
             "labelled_dominance_relations_realised": {k[5:]: v for k, v in sorted(realised.items())},
             "labelled_posets_reference": posets}
    return col, extra


RULE += (" A sorted population whose members are copied (IndividualNSGAII.copy, IndividualSwarm.copy, deepcopy) and sorted again with 0..2 newcomers: second ranking correct and the first population's ranks untouched; selectors built with constructor options (dominance=EpsilonDominance, epsilons lists) over V3^2 x F, n<=4.")

RULE += (' Beyond small: structured populations (chain, antichain, grid, duplicated, two-level, pseudo-random) of 31..257 members (thorough 1000, 1025) in two orders; populations mixing the individual classes (n<=4, every rotation).')
