"""C18 -- swarm: personal best never regresses, velocity clamped, position rule, leader set bounded and non-dominated."""
import itertools
import math

from ..core.common import Collector, run_shards
from ..core.explorer import explore, explore_part, run_once
from ..core.refmodels import ref_dominance
from ..core import shim as shim_mod
from .c13 import BOXES

PROPERTY = "C18"
LEVEL = "exploration"
RULE = ("update_particle_best over every ordered pair of signed-cost vectors (the C01 pair alphabets) for the base class and the three "
        "algorithms; speed_constriction and each class's update_position over x in {lb-10w, lb-eps, lb, mid, ub, ub+eps, ub+10w} x v in "
        "{0, +-eps, +-w/2, +-10w, +-1e300} per box; update_velocity with 1 and 2 leaders, every draw (r1,r2,c1,c2, inertia, leader pick) at "
        "base/0/1-2^-53 in every combination, particle and leaders on the bounds; full OMOPSO/SMPSO/PSOGA runs (N 2..4, G 1..3; a generic bi-objective problem and one on which every design is Pareto-optimal) with every "
        "decision/pick/value draw deviating (<=1, thorough <=2), leaders inspected after every update_global_best. Non-trivial = pair "
        "with different vectors / non-zero velocity / run with a deviation; distinct = distinct case tuples.")
ASSUMPTIONS = ["dominance between leaders is judged by the C01 reference relation on signed costs",
               "position rule checked exactly as stated: bound hit -> coordinate on the bound and velocity x(-1) (OMOPSO, PSOGA) or x0.001 (SMPSO)"]

A4 = (-1.0, 0.0, 1.0, 2.0)
V3 = (0.0, 1.0, 2.0)
_alg = {}


def algorithm(name, bounds, N=3, ncosts=2, precision=None):
    key = (name, tuple(map(tuple, bounds)), N, ncosts, precision)
    if key not in _alg:
        from .c_support import make_problem
        from artap import algorithm_swarm as sw
        shim_mod.install()
        problem = make_problem(n_params=len(bounds), bounds=bounds, criteria=["minimize"] * ncosts,
                               param_extra=[{"precision": precision}] * len(bounds) if precision else None)
        cls = {"base": sw.SwarmAlgorithm, "OMOPSO": sw.OMOPSO, "SMPSO": sw.SMPSO, "PSOGA": sw.PSOGA}[name]
        a = cls(problem)
        a.options['max_population_size'] = N
        _alg[key] = a
    return _alg[key]


def check_pbest(name, new, best):
    from artap.individual import Individual
    a = algorithm(name, [[0.0, 1.0]], ncosts=len(new) - 1)      # a problem with as many objectives as the cost vectors have
    p = Individual([0.25])
    p.costs_signed = list(new)
    old_vec = [0.75]
    p.features['best_cost'] = list(best)
    p.features['best_vector'] = old_vec
    try:
        a.update_particle_best([p])
    except Exception as e:
        return [("C18:pbest:exception:%s" % type(e).__name__, "%s update_particle_best(new=%r, best=%r) raised %r" % (name, new, best, e))]
    replaced = p.features['best_vector'] is not old_vec and list(p.features['best_vector']) == [0.25]
    kept = p.features['best_vector'] is old_vec or list(p.features['best_vector']) == [0.75]
    d = ref_dominance(tuple(new), tuple(best))     # 2: the old best dominates the new position
    want = d != 2
    out = []
    if want and not (replaced and list(p.features['best_cost']) == list(new)):
        out.append(("C18:pbest:not-replaced:%s" % ("new-dominates" if d == 1 else "incomparable-or-equal"),
                    "%s: new %r vs best %r: personal best not replaced (best_cost %r)" % (name, new, best, p.features['best_cost'])))
    if not want and not (kept and list(p.features['best_cost']) == list(best)):
        out.append(("C18:pbest:replaced-by-dominated", "%s: new %r is dominated by best %r but replaced it" % (name, new, best)))
    return out


def xs_vs(box):
    lb, ub = box
    w = ub - lb
    eps = max(abs(lb), abs(ub), w) * 2.0 ** -50
    xs = [lb - 10 * w, lb - eps, lb, lb + w / 2.0, ub, ub + eps, ub + 10 * w]
    vs = [0.0, eps, -eps, w / 2.0, -w / 2.0, 10 * w, -10 * w, 1e300, -1e300]
    return xs, vs


def check_position(name, box, x, v, precision=None):
    from artap.individual import Individual
    a = algorithm(name, [box], precision=precision)
    lb, ub = box
    ind = Individual([x])
    ind.features['velocity'] = [v]
    try:
        a.update_position([ind])
    except Exception as e:
        return [("C18:position:exception:%s" % type(e).__name__, "%s box %r x=%r v=%r raised %r" % (name, box, x, v, e))]
    nx, nv = ind.vector[0], ind.features['velocity'][0]
    t = x + v
    factor = 0.001 if name == "SMPSO" else -1.0
    if t > ub:
        ex, ev = ub, v * factor
    elif t < lb:
        ex, ev = lb, v * factor
    else:
        ex, ev = t, v
    out = []
    if nx != ex:
        out.append(("C18:position:coordinate:%s" % ("upper" if t > ub else "lower" if t < lb else "inside"),
                    "%s box %r x=%r v=%r: coordinate %r expected %r" % (name, box, x, v, nx, ex)))
    if nv != ev:
        out.append(("C18:position:velocity:%s:%s" % (name, "upper" if t > ub else "lower" if t < lb else "inside"),
                    "%s box %r x=%r v=%r: velocity %r expected %r" % (name, box, x, v, nv, ev)))
    return out


def check_constriction(box, v):
    from artap.algorithm_swarm import SwarmAlgorithm
    lb, ub = box
    r = SwarmAlgorithm.speed_constriction(v, ub, lb)
    half = (ub - lb) / 2.0
    if not (-half <= r <= half) or (abs(v) <= half and r != v):
        return [("C18:constriction", "speed_constriction(%r, ub=%r, lb=%r) = %r, limit %r" % (v, ub, lb, r, half))]
    return []


def velocity_body_factory(name, boxes, nleaders, xcase, narrowed=False):
    def body(ctx):
        from artap.individual import Individual
        from artap.archive import Archive
        if narrowed:
            # the algorithm object is built on a wide box; afterwards the user narrows the bounds of the problem in place
            wide = [[b[0] - 40.0 * (b[1] - b[0]), b[1] + 40.0 * (b[1] - b[0])] for b in boxes]
            a = algorithm(name, wide, N=7)
            for par, b in zip(a.problem.parameters, boxes):
                par['bounds'][0], par['bounds'][1] = b
        else:
            a = algorithm(name, boxes)
        a.leaders = Archive()
        pts = {"lb": [b[0] for b in boxes], "ub": [b[1] for b in boxes], "mid": [(b[0] + b[1]) / 2 for b in boxes]}
        for k in range(nleaders):
            l = Individual(pts["ub"] if k == 0 else pts["lb"])
            l.costs_signed = [float(k), float(1 - k), True]
            l.features['crowding_distance'] = math.inf if k == 0 else 1.0
            a.leaders._contents.append(l)
        ind = Individual(pts[xcase[0]])
        ind.features['best_vector'] = list(pts[xcase[1]])
        ind.features['velocity'] = [0.0] * len(boxes)
        sh = shim_mod.SHIM
        sh.reset(3, ctx, extreme_values=True, price_value=0, price_pick=0, price_decision=0)
        try:
            a.update_velocity([ind])
        except Exception as e:
            return [("C18:velocity:exception:%s" % type(e).__name__, "%s boxes %r raised %r" % (name, boxes, e))]
        finally:
            sh.ctx = None
            if narrowed:
                for par, b in zip(a.problem.parameters, wide):
                    par['bounds'][0], par['bounds'][1] = b
        out = []
        for v, b in zip(ind.features['velocity'], boxes):
            half = (b[1] - b[0]) / 2.0
            if not (-half <= v <= half):
                out.append(("C18:velocity:not-clamped:%s%s" % (name, ":bounds-narrowed-later" if narrowed else ""), "%s boxes %r particle %r leaders %d: velocity %r exceeds +-%r" % (
                    name, boxes, xcase, nleaders, v, half)))
                break
        ctx.digest = tuple(ind.features['velocity'])
        return out
    return body


def tradeoff(v):
    """Every design is Pareto-optimal: the leader archive grows unless it is truncated."""
    return [v[0], 1.0 - v[0]]


def run_body_factory(name, N, G, seed, objective="std"):
    def body(ctx):
        from .c_support import run_algorithm
        viol = []
        base_obj = objective.split("+")[0]
        g = (lambda v: [v[0] - 0.5]) if "+half" in objective else None          # the right half of the box violates
        before = None
        if "+fail" in objective:
            calls = {"n": -1}

            def before(problem, individual):
                calls["n"] += 1
                if calls["n"] in (1, 4, N + 2):
                    raise (TimeoutError if calls["n"] % 2 else RuntimeError)("scripted")

        def objective_only(cs):
            # no constraints: every design is feasible, whatever the markers say -- judged on the objectives alone
            return tuple(cs) if g is not None else tuple(cs[:-1]) + (True,)

        def prepare(problem, alg):
            inner = alg.update_global_best

            def wrapped(swarm):
                r = inner(swarm)
                members = list(alg.leaders)
                if len(members) > N:
                    viol.append(("C18:leaders:exceed-population:%s" % name, "%d leaders for population size %d" % (len(members), N)))
                for i, p in enumerate(members):
                    for q in members[i + 1:]:
                        if ref_dominance(tuple(p.costs_signed), tuple(q.costs_signed)) != 0:
                            viol.append(("C18:leaders:dominated-member:%s" % name,
                                         "leaders %r and %r are not mutually non-dominated" % (p.costs_signed, q.costs_signed)))
                            return r
                return r
            alg.update_global_best = wrapped
            # personal best: wrap update_particle_best to compare before/after
            inner_pb = alg.update_particle_best

            def wrapped_pb(population):
                # particle by particle (PSOGA lets two particles share one features dict, so a batch-wide
                # before/after comparison would chain two legitimate replacements into an apparent regression)
                for p in population:
                    b = p.features.get('best_cost')
                    b = list(b) if b is not None else None
                    pos = list(p.costs_signed)
                    inner_pb([p])
                    if b is None:
                        continue
                    after = list(p.features['best_cost'])
                    if after != b and ref_dominance(objective_only(b), objective_only(after)) == 1:
                        viol.append(("C18:run:pbest-regressed:%s" % name, "personal best %r replaced by dominated %r" % (b, after)))
                    elif after == b and pos != b and ref_dominance(objective_only(b), objective_only(pos)) != 1:
                        viol.append(("C18:run:pbest-not-updated:%s" % name, "position %r not dominated by best %r but not taken" % (pos, b)))
            alg.update_particle_best = wrapped_pb
        problem, alg, exc = run_algorithm(name, ctx, seed, N, G, n_params=2, n_costs=2, bounds=[[0.0, 1.0], [-2.0, 2.0]],
                                          prepare=prepare, shim_cfg={"extreme_values": True, "max_draws": max(5000, 300 * N * (G + 1))}, g=g, before=before,
                                          f=tradeoff if base_obj == "tradeoff" else None)
        desc = "%s N=%d G=%d objective=%s" % (name, N, G, objective)
        # state invariant after the run, whichever route the algorithm took to maintain the personal bests: no recorded
        # particle's own evaluated position dominates the personal best recorded for it (it would have replaced it)
        if exc is None:
            for ind in problem.individuals:
                b = ind.features.get('best_cost')
                if b is None or not ind.costs_signed or len(b) != len(ind.costs_signed):
                    continue
                pos_c, best_c = objective_only(ind.costs_signed), objective_only(b)
                if ref_dominance(pos_c, best_c) == 1:
                    viol.append(("C18:run:position-dominates-recorded-pbest:%s" % name,
                                 "a particle at %r with costs %r carries the personal best %r, which its own position dominates" % (
                                     list(ind.vector), list(ind.costs_signed), list(b))))
                    break
        out = [(k, m + "; " + desc) for k, m in viol[:3]]
        if exc is not None:
            out.append(("C18:run:%s:exception:%s" % (name, type(exc).__name__), "%s raised %r" % (desc, exc)))
        ctx.digest = tuple(v for _, v in problem.h_log)
        return out
    return body


def _shard(shard, col: Collector):
    kind = shard[0]

    def rec(sub, case, viol, nontrivial=True):
        col.case()
        if nontrivial:
            col.nontrivial((sub, repr(case)))
        for key, msg in viol:
            col.violation(key, sub, msg, case)
    if kind == "pbest":
        _, name = shard
        NEARV = (1000.0, 1000.0000001, 1.0, 1.0 + 1e-12, 0.0, 1e-17)
        for values, m in ((A4, 1), (A4, 2), (V3, 3), (NEARV, 1), (NEARV, 2)):
            vs = [tuple(v) + (f,) for v in itertools.product(values, repeat=m) for f in (False, True)]
            for new in vs:
                for best in vs:
                    rec("pbest", {"name": name, "new": new, "best": best}, check_pbest(name, new, best), new != best)
        col.sample({"kind": "personal-best", "class": name, "new": [1.0, 0.0, True], "best": [0.0, 1.0, True]}, 1)
    elif kind == "position":
        for name in ("OMOPSO", "SMPSO", "PSOGA"):
            for box in BOXES:
                xs, vs = xs_vs(box)
                for x in xs:
                    for v in vs:
                        rec("position", {"name": name, "box": box, "x": x, "v": v}, check_position(name, list(box), x, v), v != 0.0)
        # parameters that declare a precision (bounds off that grid): the rule is about the bounds, whatever the precision
        for name in ("OMOPSO", "SMPSO", "PSOGA"):
            for box, prec in (((0.25, 1.75), 0.5), ((0.0, 1.0), 0.3), ((-0.37, 0.41), 0.1), ((1.0, 2.0), 1e-3), ((0.35, 2.45), 0.7)):
                xs, vs = xs_vs(box)
                for x in xs:
                    for v in vs:
                        rec("position", {"name": name, "box": box, "x": x, "v": v, "precision": prec}, check_position(name, list(box), x, v, prec), v != 0.0)
        for box in BOXES:
            xs, vs = xs_vs(box)
            for v in vs + [vs[3] * (1 + 2.0 ** -52), -vs[3] * (1 + 2.0 ** -52)]:
                rec("constriction", {"box": box, "v": v}, check_constriction(list(box), v))
        col.sample({"kind": "position", "class": "SMPSO", "box": [0.0, 1.0], "x": 1.0, "v": 0.5}, 1)
    elif kind == "velocity":
        _, name, bi = shard
        boxes = [list(BOXES[bi]), list(BOXES[(bi + 1) % len(BOXES)])]
        for nleaders in (1, 2):
            for xcase in (("lb", "ub"), ("ub", "lb"), ("mid", "mid"), ("lb", "lb")):
                body = velocity_body_factory(name, boxes, nleaders, xcase)
                explore(body, col, bound=None, sub="velocity",
                        case_extra={"name": name, "boxes": boxes, "nleaders": nleaders, "xcase": xcase})
            if abs(boxes[0][1] - boxes[0][0]) < 1e6 and abs(boxes[1][1] - boxes[1][0]) < 1e6:
                body = velocity_body_factory(name, boxes, nleaders, ("lb", "ub"), True)
                explore(body, col, bound=None, sub="velocity",
                        case_extra={"name": name, "boxes": boxes, "nleaders": nleaders, "xcase": ("lb", "ub"), "narrowed": True})
        col.sample({"kind": "velocity", "class": name, "boxes": boxes, "draws": "every combination of base/0/1-2^-53"}, 1)
    elif kind == "run":
        _, name, N, G, seed, bound, part, nparts, objective = shard
        body = run_body_factory(name, N, G, seed, objective)

        def on_exec(ctx, out):
            if any(ctx.choices):
                col.nontrivial((name, N, G, objective, tuple(ctx.choices)))
        explore_part(body, col, part, nparts, bound=bound, sub="run", on_exec=on_exec,
                     case_extra={"name": name, "N": N, "G": G, "seed": seed, "objective": objective})
        if part == 0:
            col.sample({"kind": "run", "algorithm": name, "N": N, "G": G, "deviation_bound": bound}, 1)


def replay(sub, case):
    if sub == "pbest":
        return check_pbest(case["name"], tuple(case["new"]), tuple(case["best"]))
    if sub == "position":
        return check_position(case["name"], list(case["box"]), case["x"], case["v"], case.get("precision"))
    if sub == "constriction":
        return check_constriction(list(case["box"]), case["v"])
    if sub == "velocity":
        ctx, out = run_once(velocity_body_factory(case["name"], case["boxes"], case["nleaders"], tuple(case["xcase"]), case.get("narrowed", False)), case["choices"])
        return out
    if sub == "run":
        ctx, out = run_once(run_body_factory(case["name"], case["N"], case["G"], case["seed"], case.get("objective", "std")), case["choices"])
        return out
    raise ValueError(sub)


def run(tier, seed):
    import artap.algorithm_swarm  # noqa: F401
    shards = [("pbest", n) for n in ("base", "OMOPSO", "SMPSO", "PSOGA")] + [("position",)]
    for name in ("OMOPSO", "SMPSO", "PSOGA"):
        for bi in ((0, 2, 4, 5) if tier != "thorough" else range(len(BOXES))):
            shards.append(("velocity", name, bi))
    bound = 2 if tier == "thorough" else 1
    for name in ("OMOPSO", "SMPSO", "PSOGA"):
        for (N, G) in ((2, 1), (2, 2), (3, 2), (4, 3)):
            b = 1 if (N, G) == (4, 3) else bound
            nparts = 4 if (tier == "thorough" or (N, G) == (4, 3)) else 2
            for part in range(nparts):
                shards.append(("run", name, N, G, seed, b, part, nparts, "std"))
                shards.append(("run", name, N, G, seed, b, part, nparts, "tradeoff"))
    for name in ("OMOPSO", "SMPSO", "PSOGA"):          # long and larger runs: default execution (cumulative effects, growing archives)
        for (N, G) in ((4, 12), (8, 5), (3, 20)):
            for objective in ("std", "tradeoff"):
                shards.append(("run", name, N, G, seed, 0, 0, 1, objective))
    for name in ("OMOPSO", "SMPSO", "PSOGA"):
        # transient failures in unconstrained runs; constrained runs; swarms and leader archives beyond the explored sizes
        for (N, G) in ((2, 2), (3, 2), (6, 4), (6, 10), (4, 6)):
            shards.append(("run", name, N, G, seed, 1 if N <= 3 else 0, 0, 1, "tradeoff+fail"))
            shards.append(("run", name, N, G, seed, 1 if N <= 3 else 0, 0, 1, "std+fail"))
            shards.append(("run", name, N, G, seed, 1 if N <= 3 else 0, 0, 1, "tradeoff+half"))
        for (N, G) in ((31, 2), (32, 3), (33, 3), (48, 4), (64, 2), (65, 3), (100, 2)):
            shards.append(("run", name, N, G, seed, 0, 0, 1, "tradeoff+half"))
            shards.append(("run", name, N, G, seed, 0, 0, 1, "tradeoff"))
    col = run_shards(_shard, shards)
    return col, {"exhaustive": col.counters.get("caps_hit", 0) == 0, "boxes": BOXES}


RULE += (" Position rule also on parameters that declare a precision (five boxes off the precision grid); after every run: no recorded particle's own position dominates the personal best recorded for it.")

RULE += (' Beyond small: runs with N in {31, 32, 33, 48, 64, 65, 100}, constrained and unconstrained; runs with scripted transient failures judged on the objectives alone when the problem has no constraints.')
