"""C01 -- constrained Pareto dominance is the textbook strict partial order; epsilon comparator agrees.

Bounded exhaustive enumeration of pairs and triples over order-complete value alphabets.
"""
import itertools

from ..core.common import Collector, run_shards
from ..core.refmodels import ref_dominance, swap

PROPERTY = "C01"
LEVEL = "exploration"
RULE = ("every ordered pair (and triple, for transitivity) of signed-cost vectors over the listed alphabets x "
        "feasibility markers {False,True}, for ParetoDominance and EpsilonDominance with each listed epsilon list; "
        "plus pairs built through Individual.calc_signed_costs for every min/max sign assignment. "
        "A case is non-trivial when the two vectors differ; distinct = distinct (comparator, p, q).")
ASSUMPTIONS = [
    "reference verdicts are demanded only for the markers artap writes (False = satisfies all constraints, True otherwise); over numeric markers of both signs only the stated laws (irreflexive, antisymmetric, transitive, zero preferred) are checked",
    "finite floats; alphabet differences >= 1 so 'differ by more than rounding error' holds for every epsilon listed",
    "NaN and mixed-length vectors are outside the statement",
]

V3 = (0.0, 1.0, 2.0)
A4 = (-1.0, 0.0, 1.0, 2.0)
A5 = (-2.0, -1.0, 0.0, 1.0, 2.0)     # -1.0 and -2.0 have the same hash in CPython (a comparator caching by hash must not mix them up)
B2 = (0.0, 1.0)
# near-ties: adjacent floats and 1e-12-relative neighbours at three magnitudes (Pareto comparator only; for the epsilon
# comparator such pairs are inside "rounding error", where the statement promises nothing)
import math as _m
NEAR = (1.0, _m.nextafter(1.0, 2.0), 1.0 + 1e-12, 1000.0, _m.nextafter(1000.0, 2000.0), -1e-3, -1e-3 * (1 + 1e-12),
        0.0, 5e-324, 1e-17, -1e-17, 0.1, _m.nextafter(0.1, 1.0))
MARK = (False, True)
EPS_LISTS = ([0.1], [0.1, 0.1], [0.01, 5.0], 0.25, [1e-6], [1e3], [0.3, 0.7, 0.9])


SIZES = tuple(range(13, 35)) + (63, 64, 65, 100, 127, 128, 129, 255, 256, 257, 1000, 1024, 1025)
THRESHOLD_POS = (7, 8, 15, 16, 31, 32, 33, 63, 64, 65, 99, 100, 127, 128, 129, 255, 256, 257, 511, 512, 999, 1000, 1023, 1024)


def make_comparator(spec):
    from artap.operators import ParetoDominance, EpsilonDominance
    if spec == "pareto":
        return ParetoDominance()
    if spec[0] == "pareto_eps":         # the Pareto comparator built with its (documented, ignored) epsilons argument
        return ParetoDominance(epsilons=spec[1])
    if spec[0] == "selector":           # the comparators a selector builds for itself from its constructor arguments
        from artap.operators import TournamentSelector
        sel = TournamentSelector([{"name": "x", "bounds": [0.0, 1.0]}], epsilons=spec[1])
        return sel.dominance if spec[2] == "dominance" else sel.comparator
    return EpsilonDominance(spec[1])


def marker_class(p, q):
    return "eq" if p[-1] == q[-1] else ("p_feasible" if not p[-1] else "q_feasible")


def check_pair(spec, p, q):
    """All pair-level clauses for one ordered pair; returns [(key, message)]."""
    out = []
    cmp_ = make_comparator(spec).compare
    name = "pareto" if (spec == "pareto" or spec[0] in ("pareto_eps", "selector")) else "epsilon"
    got = cmp_(list(p), list(q))
    rev = cmp_(list(q), list(p))
    exp = ref_dominance(p, q)
    same_obj = list(p[:-1]) == list(q[:-1])
    mc = marker_class(p, q)
    if name == "pareto" or not (same_obj and p[-1] == q[-1]):
        if got != exp:
            out.append(("C01:%s:verdict:marker=%s:expected=%d" % (name, mc, exp),
                        "%s.compare(%r, %r) = %r, definition gives %r" % (name, p, q, got, exp)))
        if rev != swap(got):
            out.append(("C01:%s:antisymmetry:marker=%s" % (name, mc),
                        "%s.compare(p,q)=%r but compare(q,p)=%r for p=%r q=%r" % (name, got, rev, p, q)))
    else:
        # identical objective vectors and markers: the epsilon comparator must name a loser
        if got not in (1, 2):
            out.append(("C01:epsilon:identical-names-loser",
                        "epsilon compare(%r, %r) = %r, must be 1 or 2 for identical vectors" % (p, q, got)))
    if name == "pareto" and list(p) == list(q) and got != 0:
        out.append(("C01:pareto:irreflexive", "compare(p,p) = %r for p=%r" % (got, p)))
    return out


def check_triple(spec, a, b, c):
    cmp_ = make_comparator(spec).compare
    out = []
    if cmp_(list(a), list(b)) == 1 and cmp_(list(b), list(c)) == 1 and cmp_(list(a), list(c)) != 1:
        out.append(("C01:%s:transitivity" % ("pareto" if spec == "pareto" else "epsilon"),
                    "a>b and b>c but compare(a,c)=%r for a=%r b=%r c=%r" % (cmp_(list(a), list(c)), a, b, c)))
    return out


def check_built(costs_p, costs_q, signs, feas_p, feas_q):
    """Vectors built the way artap builds them: Individual.calc_signed_costs(signs) with a feasibility feature."""
    from artap.individual import Individual
    from artap.operators import ParetoDominance
    out = []
    inds = []
    for costs, feas in ((costs_p, feas_p), (costs_q, feas_q)):
        ind = Individual([0.0])
        ind.costs = list(costs)
        if feas is not None:
            ind.features["feasible"] = feas
        ind.calc_signed_costs(list(signs))
        inds.append(ind)
    got = ParetoDominance().compare(inds[0].costs_signed, inds[1].costs_signed)
    # expectation from the raw costs and criteria: feasibility first (None = unconstrained: both equal)
    def better_or_equal(x, y, s):
        return x <= y if s > 0 else x >= y
    fp = True if feas_p is None else feas_p
    fq = True if feas_q is None else feas_q
    if (feas_p is None) != (feas_q is None):
        return out  # mixed constrained/unconstrained individuals do not occur within one problem
    if fp != fq:
        exp = 1 if fp else 2
    else:
        ple = all(better_or_equal(x, y, s) for x, y, s in zip(costs_p, costs_q, signs))
        qle = all(better_or_equal(y, x, s) for x, y, s in zip(costs_p, costs_q, signs))
        exp = 1 if ple and not qle else 2 if qle and not ple else 0
    if got != exp:
        out.append(("C01:built:verdict:signs=%s" % ("mixed" if len(set(signs)) > 1 else ("min" if signs[0] > 0 else "max")),
                    "costs %r vs %r, signs %r, feasible %r/%r: compare = %r, expected %r" % (
                        costs_p, costs_q, signs, feas_p, feas_q, got, exp)))
    return out


def vectors(values, m, markers=MARK):
    return [tuple(v) + (f,) for v in itertools.product(values, repeat=m) for f in markers]


def _shard(shard, col: Collector):
    kind = shard[0]
    if kind == "pairs":
        _, spec, values, m = shard
        vs = vectors(values, m)
        cmp_ = make_comparator(spec).compare
        name = "pareto" if spec == "pareto" else "epsilon"
        n = len(vs)
        ver = [[cmp_(list(p), list(q)) for q in vs] for p in vs]   # the implementation's verdict matrix
        # the same comparator object, asked again in the opposite order: a verdict must not depend on what the object
        # has been asked before (caches, memoised state)
        for i in range(n - 1, -1, -1):
            for j in range(n - 1, -1, -1):
                again = cmp_(list(vs[i]), list(vs[j]))
                if again != ver[i][j]:
                    col.violation("C01:%s:verdict-depends-on-history" % name, "history",
                                  "%s.compare(%r, %r) gave %r first and %r when asked again on the same comparator object" % (
                                      name, vs[i], vs[j], ver[i][j], again), {"spec": spec, "values": values, "m": m, "p": vs[i], "q": vs[j]})
                    ver[i][j] = again if ref_dominance(vs[i], vs[j]) != again else ver[i][j]
        for i, p in enumerate(vs):
            for j, q in enumerate(vs):
                col.case()
                got = ver[i][j]
                exp = ref_dominance(p, q)
                if i != j:
                    col.nontrivial((name, repr(spec), p, q))
                bad = False
                if name == "epsilon" and p == q:
                    bad = got not in (1, 2)
                else:
                    bad = got != exp or ver[j][i] != swap(got)
                if bad:
                    for key, msg in check_pair(spec, p, q):
                        col.violation(key, "pair", msg, {"spec": spec, "p": p, "q": q})
        col.sample({"kind": "pair", "comparator": spec, "p": vs[1], "q": vs[n // 2], "verdict": ver[1][n // 2]}, 2)
        # transitivity on the implementation's own verdicts (all ordered triples)
        dom = [[j for j in range(n) if ver[i][j] == 1] for i in range(n)]
        for a in range(n):
            for b in dom[a]:
                for c in dom[b]:
                    col.count("triples_with_chain")
                    if ver[a][c] != 1:
                        for key, msg in check_triple(spec, vs[a], vs[b], vs[c]):
                            col.violation(key, "triple", msg, {"spec": spec, "a": vs[a], "b": vs[b], "c": vs[c]})
        col.count("triples", n * n * n)
    elif kind == "misc":
        import numpy as np
        from artap.operators import ParetoDominance, EpsilonDominance
        # (1) arguments are not modified; (2) two comparator objects with different epsilons used alternately answer as if alone;
        # (3) the verdict does not depend on the numeric type of equal values (int / float / numpy scalars / negative zero)
        vs = vectors(A5, 2)
        e1, e2, pa = EpsilonDominance([0.1, 0.1]), EpsilonDominance([1e3]), ParetoDominance()
        alone1 = EpsilonDominance([0.1, 0.1])
        for p in vs:
            for q in vs:
                col.case()
                lp, lq = list(p), list(q)
                r1 = e1.compare(lp, lq)
                r2 = e2.compare(lp, lq)
                r3 = pa.compare(lp, lq)
                if lp != list(p) or lq != list(q):
                    col.violation("C01:compare:modifies-its-arguments", "misc", "compare changed its arguments %r %r -> %r %r" % (p, q, lp, lq), {"p": p, "q": q})
                if r1 != alone1.compare(list(p), list(q)):
                    col.violation("C01:epsilon:objects-influence-each-other", "misc",
                                  "EpsilonDominance([0.1,0.1]).compare(%r, %r) = %r next to another comparator object, %r alone" % (p, q, r1, alone1.compare(list(p), list(q))), {"p": p, "q": q})
                if p != q and (r3 != ref_dominance(p, q) or r2 != ref_dominance(p, q)) and p[:-1] != q[:-1]:
                    col.violation("C01:interleaved:verdict", "misc", "interleaved comparators: pareto %r eps(1e3) %r, definition %r for %r %r" % (r3, r2, ref_dominance(p, q), p, q), {"p": p, "q": q})
        types = (lambda v: int(v), lambda v: float(v), lambda v: np.float64(v), lambda v: np.float32(v), lambda v: np.int64(v))
        base = [(a, b, f) for a in (0, 1, 2) for b in (0, 1, 2) for f in MARK]
        for p in base:
            for q in base:
                exp = ref_dominance(p, q)
                for tp in types:
                    for tq in types:
                        col.case()
                        pp = [tp(p[0]), tp(p[1]), p[2]]
                        qq = [tq(q[0]), tq(q[1]), q[2]]
                        got = pa.compare(pp, qq)
                        if got != exp:
                            col.violation("C01:pareto:numeric-type", "misc", "compare(%r, %r) = %r, definition %r" % (pp, qq, got, exp), {"p": p, "q": q})
        for p, q in (((-0.0, 1.0, True), (0.0, 1.0, True)), ((0.0, -0.0, False), (-0.0, 0.0, False)), ((-0.0, 0.0, True), (0.0, 1.0, True)),
                     ((2.0 ** 53, 1.0, True), (2.0 ** 53 + 2.0, 1.0, True)), ((5e-324, 0.0, True), (0.0, 0.0, True)), ((-5e-324, 0.0, True), (-0.0, 0.0, True)),
                     ((1.7976931348623157e308, 0.0, True), (-1.7976931348623157e308, 0.0, True))):
            for a, b in ((p, q), (q, p)):
                col.case()
                col.nontrivial(("edge", a, b))
                if pa.compare(list(a), list(b)) != ref_dominance(a, b):
                    col.violation("C01:pareto:numeric-edge", "misc", "compare(%r, %r) = %r, definition %r" % (a, b, pa.compare(list(a), list(b)), ref_dominance(a, b)), {"p": a, "q": b})
        # mixed magnitudes: an improvement in one objective must not be absorbed by a huge value in another
        MIX = (1e20, -1e20, 2.0 ** 53, 0.0, 0.25, 0.75, 1.0)
        mv = [tuple(v) + (f,) for v in itertools.product(MIX, repeat=2) for f in MARK] + \
             [tuple(v) + (True,) for v in itertools.product((1e20, 2.0 ** 53, 0.25, 0.75), repeat=3)]
        for p in mv:
            for q in mv:
                if len(p) != len(q):
                    continue
                col.case()
                if p != q:
                    col.nontrivial(("mix", p, q))
                got = pa.compare(list(p), list(q))
                if got != ref_dominance(p, q):
                    col.violation("C01:pareto:verdict:mixed-magnitudes", "misc", "compare(%r, %r) = %r, definition %r" % (p, q, got, ref_dominance(p, q)), {"p": p, "q": q})
        # one list object, modified in place between two calls (the worst-case evaluator overwrites and inserts entries of
        # costs_signed): the second verdict must be about the new contents
        for spec_c in (pa, EpsilonDominance([0.1, 0.1]), EpsilonDominance(0.25)):
            for q in vectors(V3, 2):
                for first, second in (((0.0, 0.0, True), (2.0, 2.0, True)), ((2.0, 0.0, True), (0.0, 2.0, True)), ((1.0, 1.0, False), (1.0, 1.0, True))):
                    col.case()
                    lp = list(first)
                    spec_c.compare(lp, list(q))
                    lp[0], lp[1], lp[2] = second
                    got = spec_c.compare(lp, list(q))
                    lq = list(q)
                    spec_c.compare(lq, list(first))
                    want = ref_dominance(second, q)
                    if tuple(second[:-1]) == tuple(q[:-1]) and second[-1] == q[-1] and spec_c is not pa:
                        ok = got in (1, 2)
                    else:
                        ok = got == want
                    if not ok:
                        col.violation("C01:%s:stale-after-in-place-change" % type(spec_c).__name__, "misc",
                                      "a cost list was changed in place from %r to %r between two calls; compare(list, %r) = %r, definition %r" % (first, second, q, got, want),
                                      {"p": second, "q": q})
        col.sample({"kind": "argument immutability / independent comparator objects / numeric types and edge values / in-place changes"}, 1)
    elif kind == "crossproblem":
        # signed costs as the framework derives them for several problems living in one process (a maximising study next
        # to a minimising one): the verdict on two evaluated designs of a problem follows THAT problem's criteria
        from artap.algorithm import DummyAlgorithm
        from artap.individual import Individual
        from artap.operators import ParetoDominance
        from .c_support import make_problem
        crit_sets = [("maximize", "minimize"), ("minimize", "maximize"), ("minimize", "minimize"), ("maximize", "maximize"), ("maximize",), ("minimize", "minimize", "maximize")]
        for first in crit_sets:
            for second in crit_sets:
                pa = make_problem(n_params=2, criteria=list(first), f=lambda v, k=len(first): [v[0], v[1], v[0] + v[1]][:k])
                pb = make_problem(n_params=2, criteria=list(second), f=lambda v, k=len(second): [v[0], v[1], v[0] + v[1]][:k])
                for problem, crits in ((pa, first), (pb, second), (pa, first)):
                    pts = [[0.0, 0.0], [1.0, 0.0], [0.0, 1.0], [1.0, 1.0], [0.5, 0.5]]
                    inds = [Individual(list(x)) for x in pts]
                    DummyAlgorithm(problem).evaluate(inds)
                    for a in inds:
                        for b in inds:
                            col.case()
                            col.nontrivial(("cross", first, second, tuple(a.vector), tuple(b.vector)))
                            sg = [-1.0 if c == "maximize" else 1.0 for c in crits]
                            ra = tuple(s_ * c for s_, c in zip(sg, a.costs)) + (True,)
                            rb = tuple(s_ * c for s_, c in zip(sg, b.costs)) + (True,)
                            got = ParetoDominance().compare(a.costs_signed, b.costs_signed)
                            if got != ref_dominance(ra, rb):
                                col.violation("C01:evaluated-designs:verdict-ignores-the-problems-criteria", "crossproblem",
                                              "problems with criteria %r and %r in one process; designs %r / %r of the one with %r: costs %r / %r, signed %r / %r, verdict %r, by definition %r" % (
                                                  first, second, a.vector, b.vector, crits, a.costs, b.costs, a.costs_signed, b.costs_signed, got, ref_dominance(ra, rb)),
                                              {"first": first, "second": second})
        col.sample({"kind": "designs of several problems evaluated in one process"}, 1)
    elif kind == "varlen":
        # ONE comparator object sees cost vectors of changing length (one comparator is shared by every default Archive();
        # a user-held comparator serves a bi- and then a tri-objective problem): every verdict as if the object were fresh
        from artap.operators import ParetoDominance, EpsilonDominance
        _, eps = shard
        alph = {m: ([tuple(v) + (True,) for v in itertools.product(V3, repeat=m)] if m <= 3 else
                    [tuple(v) + (True,) for v in itertools.product((0.0, 1.0), repeat=m)]) for m in (1, 2, 3, 4, 5)}
        orders = list(itertools.permutations((1, 2, 3, 4))) + [(5, 1, 3), (2, 5, 4), (1, 5), (3, 5, 2, 5)]
        for order in orders:
            cmpo = ParetoDominance() if eps == "pareto" else EpsilonDominance(eps)
            for m in order:
                for p in alph[m]:
                    for q in alph[m]:
                        col.case()
                        got = cmpo.compare(list(p), list(q))
                        exp = ref_dominance(p, q)
                        if p == q:
                            ok = (got == 0) if eps == "pareto" else got in (1, 2)
                        else:
                            ok = got == exp
                        if not ok:
                            col.violation("C01:%s:verdict-depends-on-lengths-seen-before" % ("pareto" if eps == "pareto" else "epsilon"), "varlen",
                                          "one comparator object (epsilons %r) used for lengths %r in this order: compare(%r, %r) = %r, definition %r" % (
                                              eps, order, p, q, got, exp), {"eps": eps, "order": order, "p": p, "q": q})
                col.nontrivial(("varlen", repr(eps), order, m))
        col.sample({"kind": "one comparator, changing vector lengths", "epsilons": eps, "orders": len(orders)}, 1)
    elif kind == "options":
        # comparators reached through constructor options: ParetoDominance(epsilons=...), the two comparators a
        # TournamentSelector builds -- all of them are the plain Pareto comparator
        specs = [("pareto_eps", e) for e in ([0.5], 0.3, [0.1, 2.0], [1e3])] + \
                [("selector", e, w) for e in (None, [0.5], [0.1, 2.0]) for w in ("dominance", "comparator")]
        for spec in specs:
            for m in (1, 2, 3):
                vs = vectors(A5 if m < 3 else V3, m)
                for p in vs:
                    for q in vs:
                        col.case()
                        if p != q:
                            col.nontrivial(("options", repr(spec), p, q))
                        for key, msg in check_pair(spec, p, q):
                            col.violation(key + ":constructed-with-options", "pair", "%r: %s" % (spec, msg), {"spec": spec, "p": p, "q": q})
        col.sample({"kind": "comparators built with constructor options", "specs": [repr(x) for x in specs[:3]]}, 1)
    elif kind == "laws":
        # Numeric markers (the comparator's documented reading: 0 = feasible, otherwise a degree of violation), both signs.
        # No reference verdict is demanded here - only the laws the statement names for ALL marker combinations:
        # irreflexive, antisymmetric, transitive; and a zero marker beats a non-zero one.
        _, spec, m = shard
        cmp_ = make_comparator(spec).compare
        name = "pareto" if spec == "pareto" else "epsilon"
        marks = (False, True, 0.5, -0.5, 2.0, -1.0, 1)
        vs = [tuple(v) + (f,) for v in itertools.product(V3 if m == 1 else B2, repeat=m) for f in marks]
        n = len(vs)
        ver = [[cmp_(list(p), list(q)) for q in vs] for p in vs]
        for i, p in enumerate(vs):
            for j, q in enumerate(vs):
                col.case()
                if i != j:
                    col.nontrivial(("laws", name, p, q))
                if name == "epsilon" and p[:-1] == q[:-1] and abs(p[-1]) == abs(q[-1]):
                    continue      # identical vectors of one feasibility class: the epsilon comparator names a loser by design
                if ver[j][i] != swap(ver[i][j]):
                    col.violation("C01:%s:antisymmetry:numeric-markers" % name, "lawpair",
                                  "%s.compare(p,q)=%r but compare(q,p)=%r for p=%r q=%r" % (name, ver[i][j], ver[j][i], p, q), {"spec": spec, "p": p, "q": q})
                if (p[-1] == 0) != (q[-1] == 0) and ver[i][j] != (1 if p[-1] == 0 else 2):
                    col.violation("C01:%s:feasible-not-preferred:numeric-markers" % name, "lawpair",
                                  "%s.compare(%r, %r) = %r although exactly one marker is zero" % (name, p, q, ver[i][j]), {"spec": spec, "p": p, "q": q})
        if name == "pareto":
            dom = [[j for j in range(n) if ver[i][j] == 1] for i in range(n)]
            for a in range(n):
                for b in dom[a]:
                    for c in dom[b]:
                        if ver[a][c] != 1:
                            col.violation("C01:pareto:transitivity:numeric-markers", "triple",
                                          "a>b and b>c but compare(a,c)=%r for a=%r b=%r c=%r" % (ver[a][c], vs[a], vs[b], vs[c]), {"spec": spec, "a": vs[a], "b": vs[b], "c": vs[c]})
        col.sample({"kind": "laws over numeric markers", "comparator": spec, "m": m, "markers": [repr(x) for x in marks]}, 1)
    elif kind == "longpairs":
        # long vectors (m = 7, 9, 12): every pair of vectors that are constant except for <= 2 coordinates
        _, spec, m = shard
        cmp_ = make_comparator(spec).compare
        base = [1.0] * m
        vs = []
        for f in MARK:
            vs.append(tuple(base) + (f,))
            for i in range(m):
                for a in (0.0, 2.0):
                    v = list(base)
                    v[i] = a
                    vs.append(tuple(v) + (f,))
                    for j in (m - 1, m // 2):
                        if j != i:
                            for b in (0.0, 2.0):
                                w = list(v)
                                w[j] = b
                                vs.append(tuple(w) + (f,))
        vs = list(dict.fromkeys(vs))
        for p in vs:
            for q in vs:
                col.case()
                if p != q:
                    col.nontrivial(("long", repr(spec), p, q))
                got = cmp_(list(p), list(q))
                same = p == q
                if (spec != "pareto" and same and got not in (1, 2)) or (not (spec != "pareto" and same) and got != ref_dominance(p, q)):
                    for key, msg in check_pair(spec, p, q):
                        col.violation(key + ":m=%d" % m, "pair", msg, {"spec": spec, "p": p, "q": q})
        col.sample({"kind": "long-vector pair", "m": m, "comparator": spec, "p": vs[1], "q": vs[-1]}, 1)
    elif kind == "hugepairs":
        # cost vectors far longer than any enumeration reaches (many-objective problems, aggregated cost lists): lengths around
        # the powers of two and round numbers where fast paths, chunking or typed buffers would switch on
        _, spec, m = shard
        cmp_ = make_comparator(spec).compare
        pos = sorted(set([0, 1, 2, m // 2, m - 2, m - 1] + [q for q in THRESHOLD_POS if q < m]))
        base = [1.0] * m
        vs = [tuple(base) + (True,), tuple(base) + (False,)]
        import math
        # replacement values: clearly different, one ulp / 1e-9 apart (equal in single precision), beyond the single-precision range
        repl = (0.0, 2.0) if m > 300 else (0.0, 2.0, math.nextafter(1.0, 2.0), 1.0 - 1e-9, 1e39, -1e39, 1e-46)
        for i in pos:
            for a in repl:
                v = list(base)
                v[i] = a
                vs.append(tuple(v) + (True,))
                if i != m - 1 and a in (0.0, 2.0):
                    for b in (0.0, 2.0):
                        w = list(v)
                        w[m - 1] = b
                        vs.append(tuple(w) + (True,))
        vs = list(dict.fromkeys(vs))
        for p in vs:
            for q in vs:
                col.case()
                got = cmp_(list(p), list(q))
                same = p == q
                if (spec != "pareto" and same and got not in (1, 2)) or (not (spec != "pareto" and same) and got != ref_dominance(p, q)):
                    diff = [i for i in range(m) if p[i] != q[i]]
                    col.violation("C01:%s:verdict:long-vector:m=%d" % ("pareto" if spec == "pareto" else "epsilon", m), "huge",
                                  "vectors of length %d differing at positions %r (values %r vs %r, markers %r %r): compare = %r, definition %r" % (
                                      m, diff, [p[i] for i in diff], [q[i] for i in diff], p[-1], q[-1], got, ref_dominance(p, q)),
                                  {"spec": spec, "m": m, "dp": [(i, p[i]) for i in range(m) if p[i] != 1.0], "dq": [(i, q[i]) for i in range(m) if q[i] != 1.0], "fp": p[-1], "fq": q[-1]})
        col.nontrivial(("huge", repr(spec), m))
        col.count("long_vector_pairs", len(vs) * len(vs))
        col.sample({"kind": "very long vectors", "m": m, "comparator": spec, "positions": pos[:8] + ["..."]}, 1)
    elif kind == "built":
        _, values, m = shard
        for signs in itertools.product((1, -1), repeat=m):
            for cp in itertools.product(values, repeat=m):
                for cq in itertools.product(values, repeat=m):
                    for fp, fq in ((None, None), (True, True), (False, False), (True, False), (False, True)):
                        col.case()
                        if cp != cq:
                            col.nontrivial(("built", signs, cp, cq, fp, fq))
                        for key, msg in check_built(cp, cq, signs, fp, fq):
                            col.violation(key, "built", msg, {"costs_p": cp, "costs_q": cq, "signs": signs,
                                                              "feas_p": fp, "feas_q": fq})
        col.sample({"kind": "built", "values": values, "m": m}, 1)


def replay(sub, case):
    t = lambda v: tuple(v)
    spec = case.get("spec")
    if isinstance(spec, list):
        spec = tuple(spec) if spec[0] != "eps" else ("eps", spec[1])
        if spec[0] == "selector" and isinstance(spec[1], tuple):
            spec = ("selector", list(spec[1]), spec[2])
    if sub == "pair":
        return check_pair(spec, t(case["p"]), t(case["q"]))
    if sub == "triple":
        return check_triple(spec, t(case["a"]), t(case["b"]), t(case["c"]))
    if sub == "crossproblem":
        c = Collector()
        _shard(("crossproblem",), c)
        return [(v["key"], v["message"]) for v in c.violations][:1]
    if sub == "huge":
        m = case["m"]
        p, q = [1.0] * m + [case["fp"]], [1.0] * m + [case["fq"]]
        for i, v in case["dp"]:
            p[i] = v
        for i, v in case["dq"]:
            q[i] = v
        got = make_comparator(spec).compare(list(p), list(q))
        exp = ref_dominance(tuple(p), tuple(q))
        ok = (got in (1, 2)) if (spec != "pareto" and p == q) else got == exp
        return [] if ok else [("C01:long-vector", "compare = %r, definition %r" % (got, exp))]
    if sub == "varlen":
        from artap.operators import ParetoDominance, EpsilonDominance
        eps = case["eps"]
        cmpo = ParetoDominance() if eps == "pareto" else EpsilonDominance(eps)
        p, q = t(case["p"]), t(case["q"])
        for m in case["order"]:            # bring the object into the same state: one call per earlier length
            cmpo.compare([0.0] * m + [True], [1.0] * m + [True])
            if m == len(p) - 1:
                break
        got = cmpo.compare(list(p), list(q))
        exp = ref_dominance(p, q)
        ok = (got == 0 if eps == "pareto" else got in (1, 2)) if p == q else got == exp
        return [] if ok else [("C01:varlen", "compare(%r, %r) = %r, definition %r" % (p, q, got, exp))]
    if sub == "misc":
        from artap.operators import ParetoDominance
        p, q = t(case["p"]), t(case["q"])
        got = ParetoDominance().compare(list(p), list(q))
        return [] if got == ref_dominance(p, q) else [("C01:misc", "compare(%r,%r)=%r" % (p, q, got))]
    if sub == "lawpair":
        cmp_ = make_comparator(spec).compare
        p, q = t(case["p"]), t(case["q"])
        a, b = cmp_(list(p), list(q)), cmp_(list(q), list(p))
        out = []
        if b != swap(a):
            out.append(("C01:antisymmetry:numeric-markers", "compare(p,q)=%r, compare(q,p)=%r for %r %r" % (a, b, p, q)))
        if (p[-1] == 0) != (q[-1] == 0) and a != (1 if p[-1] == 0 else 2):
            out.append(("C01:feasible-not-preferred:numeric-markers", "compare(%r,%r)=%r" % (p, q, a)))
        return out
    if sub == "history":
        vs = vectors(tuple(case["values"]), case["m"])
        cmp_ = make_comparator(spec).compare
        first = [[cmp_(list(p), list(q)) for q in vs] for p in vs]
        out = []
        for i in range(len(vs) - 1, -1, -1):
            for j in range(len(vs) - 1, -1, -1):
                if cmp_(list(vs[i]), list(vs[j])) != first[i][j] and not out:
                    out.append(("C01:verdict-depends-on-history", "compare(%r, %r) changed on the same object" % (vs[i], vs[j])))
        return out
    if sub == "built":
        return check_built(t(case["costs_p"]), t(case["costs_q"]), t(case["signs"]), case["feas_p"], case["feas_q"])
    raise ValueError(sub)


def run(tier, seed):
    specs = ["pareto"] + [("eps", e) for e in EPS_LISTS]
    shards = []
    for spec in specs:
        shards += [("pairs", spec, A5, 1), ("pairs", spec, A5, 2), ("pairs", spec, V3, 3), ("pairs", spec, B2, 4)]
        if spec == "pareto" or spec == ("eps", [0.1, 0.1]):
            shards += [("pairs", spec, (-2.0, -1.0, 1.0), 3), ("pairs", spec, B2, 5), ("pairs", spec, B2, 6)]
        if spec == "pareto" or spec == ("eps", [0.3, 0.7, 0.9]):
            shards += [("longpairs", spec, 7), ("longpairs", spec, 9), ("longpairs", spec, 12)]
        if tier == "thorough":
            shards += [("pairs", spec, A5, 3), ("pairs", spec, B2, 5), ("pairs", spec, B2, 6)]
    shards += [("pairs", "pareto", NEAR, 1), ("pairs", "pareto", NEAR, 2)]
    shards += [("misc",), ("options",), ("crossproblem",)]
    for m in SIZES:
        shards.append(("hugepairs", "pareto", m))
        shards.append(("hugepairs", ("eps", [0.3, 0.7, 0.9]), m))
    shards += [("varlen", e) for e in ("pareto", [0.1], 0.25, [0.1, 0.1], [0.01, 5.0], [0.3, 0.7, 0.9])]
    shards += [("laws", "pareto", 1), ("laws", "pareto", 2), ("laws", "pareto", 3), ("laws", ("eps", [0.1, 0.1]), 2), ("laws", ("eps", 0.25), 3)]
    if tier == "thorough":
        shards += [("pairs", "pareto", NEAR, 3)]
    shards += [("built", V3, 1), ("built", V3, 2), ("built", B2, 3)]
    if tier == "thorough":
        shards += [("built", V3, 3)]
    shards.sort(key=lambda s: -(len(s[-2]) ** s[-1] if s[0] in ("pairs", "built") else 10 ** 6) if len(s) > 1 else -10 ** 7)
    col = run_shards(_shard, shards)
    extra = {"exhaustive": True,
             "alphabets": {"A5": A5, "V3": V3, "B2": B2, "markers": MARK, "epsilons": [repr(e) for e in EPS_LISTS]},
             "bounds": "pairs+triples: A5^1, A5^2, {-2,-1,1}^3, V3^3, {0,1}^4, {0,1}^5, {0,1}^6 and long vectors m=7,9,12 differing from a constant in <=2 coordinates (Pareto and two epsilon lists), near-tie alphabet NEAR^1, NEAR^2 for Pareto (thorough: A5^3, {0,1}^5, {0,1}^6, NEAR^3) x markers",
             "near_tie_alphabet": [repr(v) for v in NEAR]}
    return col, extra


RULE += (' One comparator object serving vectors of changing length (every order of lengths 1..4, plus 5) for Pareto and five epsilon lists; comparators reached through constructor options (ParetoDominance(epsilons=...), the two comparators a TournamentSelector builds) over A5^1, A5^2, V3^3.')

RULE += (' Beyond small: vectors of length 13..34, 63..65, 100, 127..129, 255..257, 1000..1025 that differ from a constant at positions around the powers of two (values 0, 2, one ulp, 1-1e-9, +-1e39, 1e-46); designs of several problems (all pairs of six criteria sets) evaluated in one process.')
