"""C17 -- result queries and quality indicators are faithful views of the recorded data.

Exhaustive over short recording histories (tags in every order incl. interleaved, duplicate values, min/max/absent
criteria) and over all small point sets for the indicators.
"""
import itertools
import math
from collections import Counter

from ..core.common import Collector, run_shards

PROPERTY = "C17"
LEVEL = "exploration"
RULE = ("(A) tag histories: every sequence of <=4 (thorough 5) individuals with tags from {-1,0,2,5} and unique values: population(t) "
        "for every t and the default; (B) value histories: every sequence of <=3 individuals over vectors {(0,0),(0,.5),(.5,0)} x costs "
        "{1,2,3}^2 (n=3 quick: 4 cost pairs, front 1) x tags {0,2} x front {1,2}, for criteria (min,max), (max,min), (absent,min): table, "
        "listings sorted and unsorted, parameters()/costs(), find_optimum for both goals, pareto_front; (C) indicators: all reference x "
        "computed subsets of size 1..3 of {0,.5,1}^2, a 3-D family, shifts d in {0,.25,1}. Non-trivial = history with >=2 individuals "
        "or point sets that differ; distinct = distinct case tuples.")
ASSUMPTIONS = ["individuals are recorded by appending to problem.individuals (what every artap algorithm does)",
               "parameters()/costs() pair up index-wise only when each generation is recorded contiguously (as artap records)"]

TAGS = (-1, 0, 2, 5)
VECS = ((0.0, 0.0), (0.0, 0.5), (0.5, 0.0))
COSTS9 = tuple(itertools.product((1.0, 2.0, 3.0), repeat=2))
COSTS4 = ((1.0, 2.0), (2.0, 1.0), (2.0, 2.0), (3.0, 1.0))
# 'maximise' / 'max': artap (Problem.signs, find_optimum) treats every criteria string other than 'minimize' as maximised
CRITERIA = (("minimize", "maximize"), ("maximize", "minimize"), (None, "minimize"), ("maximise", "max"))


def is_max(crit):
    return crit is not None and crit != "minimize"


_PROBLEMS = {}


MODE = {"loaded": False}


def PN():
    # loaded mode: names whose lexical order is the reverse of the declaration order
    return ("width", "height") if MODE["loaded"] else ("x0", "x1")


def GN():
    return ("loss", "area") if MODE["loaded"] else ("f0", "f1")


def build(history, criteria):
    """history: list of (vector, costs, tag, front)."""
    from artap.individual import Individual
    from artap.results import Results
    from .c_support import make_problem
    if MODE["loaded"]:
        return build_loaded(history, criteria)
    key = tuple(criteria)
    if key not in _PROBLEMS:
        _PROBLEMS[key] = make_problem(n_params=2, criteria=list(criteria))
    problem = _PROBLEMS[key]
    problem.individuals = []
    inds = []
    for vec, costs, tag, front in history:
        ind = Individual(list(vec))
        ind.costs = list(costs)
        ind.population_id = tag
        ind.features['front_number'] = front
        ind.state = Individual.State.EVALUATED
        problem.individuals.append(ind)
        inds.append(ind)
    return problem, Results(problem), inds


def build_loaded(history, criteria):
    """The same recorded data, but written to a store and queried on the problem loaded back from it."""
    import atexit
    import os
    import tempfile
    from artap.datastore import SqliteDataStore
    from artap.individual import Individual
    from artap.problem import ProblemViewDataStore
    from artap.results import Results
    from .c_support import make_problem
    problem = make_problem(n_params=2, criteria=list(criteria), param_names=list(PN()))
    for j, name in enumerate(GN()):
        problem.costs[j]["name"] = name
    MODE["n"] = MODE.get("n", 0) + 1
    db = os.path.join(tempfile.gettempdir(), "c17-%d-%d.sqlite" % (os.getpid(), MODE["n"] % 4))
    for ext in ("", "-journal"):
        if os.path.exists(db + ext):
            os.remove(db + ext)
    store = SqliteDataStore(problem, database_name=db)
    from .c20 import make_as, CLASSES
    for j, (vec, costs, tag, front) in enumerate(history):
        # the recorded individuals are of the framework's different classes (an NSGA-II run followed by a sweep, ...)
        ind = make_as(CLASSES[(j + len(history)) % 4], list(vec))
        ind.costs = list(costs)
        ind.population_id = tag
        ind.features['front_number'] = front
        ind.state = Individual.State.EVALUATED
        problem.individuals.append(ind)
    store.sync_all()
    store.destroy()
    view = ProblemViewDataStore(database_name=db)
    atexit.unregister(view.cleanup)
    try:
        os.rmdir(view.working_dir)
    except OSError:
        pass
    view.data_store.destroy()
    return view, Results(view), list(view.individuals)


def same_ids(a, b):
    return len(a) == len(b) and all(x is y for x, y in zip(a, b))


def check_tags(tags):
    history = [((float(i), float(i) + 0.25), (10.0 + i, 20.0 - i), t, 1) for i, t in enumerate(tags)]
    problem, res, inds = build(history, ("minimize", "minimize"))
    out = []
    for t in sorted(set(tags) | {7}):
        if t == -1:
            continue  # -1 is the query's "default" marker
        exp = [i for i in inds if i.population_id == t]
        try:
            got = res.population(t)
        except Exception as e:
            out.append(("C17:population:exception:%s" % type(e).__name__, "tags %r population(%d) raised %r" % (tags, t, e)))
            continue
        if not same_ids(got, exp):
            out.append(("C17:population:by-tag", "tags %r: population(%d) returned ids %r expected %r" % (
                tags, t, [g.id for g in got], [e.id for e in exp])))
    last = max(tags)
    exp = [i for i in inds if i.population_id == last]
    for call, got in (("population()", res.population()), ("problem.last_population()", problem.last_population())):
        if not same_ids(got, exp):
            out.append(("C17:population:default-not-last", "tags %r: %s returned tags %r, expected the generation %d" % (
                tags, call, [g.population_id for g in got], last)))
    pops = problem.populations()
    for t in set(tags):
        if not same_ids(pops.get(t, []), [i for i in inds if i.population_id == t]):
            out.append(("C17:populations:grouping", "tags %r: populations()[%d] wrong" % (tags, t)))
    if set(pops) != set(tags):
        out.append(("C17:populations:keys", "tags %r: populations() keys %r" % (tags, sorted(pops))))
    return out


def pairs_of(a, b):
    return Counter(zip(a, b))


def check_values(history, criteria):
    problem, res, inds = build(history, criteria)
    out = []
    desc = "history %r criteria %r" % (history, criteria)

    def bad(key, msg):
        out.append((key, msg + "; " + desc))

    rows_exp = Counter(tuple(i.vector) + tuple(i.costs) for i in inds)
    if MODE["loaded"]:
        want = Counter(tuple(float(x) for x in h[0]) + tuple(float(x) for x in h[1]) + (h[2],) for h in history)
        have = Counter(tuple(float(x) for x in i.vector) + tuple(float(x) for x in i.costs) + (i.population_id,) for i in inds)
        if want != have:
            bad("C17:loaded:recorded-individuals-lost-or-changed", "%d individuals were recorded and stored, the loaded problem holds %d (%d of the recorded ones are missing)" % (
                len(history), len(inds), sum((want - have).values())))
            return out
    try:
        rows = res.table(transpose=False)
        if Counter(tuple(r) for r in rows) != rows_exp:
            bad("C17:table:rows", "table(transpose=False) rows %r" % (rows,))
        cols = res.table()
        if Counter(zip(*cols)) != rows_exp:
            bad("C17:table:transposed", "table() columns %r" % (cols,))
    except Exception as e:
        bad("C17:table:exception:%s" % type(e).__name__, "table raised %r" % (e,))
    tags = sorted(set(h[2] for h in history))
    last = max(tags)
    for t in tags + [-1]:
        members = [i for i in inds if i.population_id == (last if t == -1 else t)]
        for srt in (False, True):
            for pi, pname in enumerate(PN()):
                for gi, gname in enumerate(GN()):
                    exp = pairs_of([m.vector[pi] for m in members], [m.costs[gi] for m in members])
                    try:
                        pv, gv = res.goal_on_parameter(pname, gname, population_id=t, sorted=srt)
                        if pairs_of(pv, gv) != exp:
                            bad("C17:goal_on_parameter:pairing:sorted=%s" % srt, "goal_on_parameter(%s,%s,%d) -> %r %r" % (pname, gname, t, pv, gv))
                        elif srt and list(pv) != sorted(pv):
                            bad("C17:goal_on_parameter:not-sorted", "goal_on_parameter(%s,%s,%d,sorted) -> %r" % (pname, gname, t, pv))
                        gv2, pv2 = res.parameter_on_goal(gname, pname, population_id=t, sorted=srt)
                        if pairs_of(pv2, gv2) != exp:
                            bad("C17:parameter_on_goal:pairing:sorted=%s" % srt, "parameter_on_goal(%s,%s,%d) -> %r %r" % (gname, pname, t, gv2, pv2))
                        elif srt and list(gv2) != sorted(gv2):
                            bad("C17:parameter_on_goal:not-sorted", "parameter_on_goal(%s,%s,%d,sorted) -> %r" % (gname, pname, t, gv2))
                    except Exception as e:
                        bad("C17:listing:exception:%s" % type(e).__name__, "listing raised %r" % (e,))
            exp = pairs_of([m.vector[0] for m in members], [m.vector[1] for m in members])
            try:
                v1, v2 = res.parameter_on_parameter(PN()[0], PN()[1], population_id=t, sorted=srt)
                if pairs_of(v1, v2) != exp:
                    bad("C17:parameter_on_parameter:pairing:sorted=%s" % srt, "parameter_on_parameter(%d) -> %r %r" % (t, v1, v2))
                elif srt and list(v1) != sorted(v1):
                    bad("C17:parameter_on_parameter:not-sorted", "parameter_on_parameter(%d,sorted) -> %r" % (t, v1))
            except Exception as e:
                bad("C17:listing:exception:%s" % type(e).__name__, "parameter_on_parameter raised %r" % (e,))
        # per-index listings and pareto front
        try:
            tab = res.goal_on_index(population_id=t)
            if tab != [list(range(len(members)))] + [[m.costs[j] for m in members] for j in range(2)]:
                bad("C17:goal_on_index", "goal_on_index(%d) -> %r" % (t, tab))
            tab = res.parameter_on_index(population_id=t)
            if tab != [list(range(len(members)))] + [[m.vector[j] for m in members] for j in range(2)]:
                bad("C17:parameter_on_index", "parameter_on_index(%d) -> %r" % (t, tab))
            pf = res.pareto_front(population_id=None if t == -1 else t)
            expf = [[m.costs[j] for m in members if m.features['front_number'] == 1] for j in range(2)]
            if pf != expf:
                bad("C17:pareto_front", "pareto_front(%d) -> %r expected %r" % (t, pf, expf))
        except Exception as e:
            bad("C17:index-listing:exception:%s" % type(e).__name__, "raised %r" % (e,))
    # parameters()/costs(): permutations of the recorded data; index-wise pairing when generations are contiguous
    try:
        ps = res.parameters()
        cs = res.costs()
        if Counter(tuple(p) for p in ps) != Counter(tuple(i.vector) for i in inds):
            bad("C17:parameters:not-a-permutation", "parameters() -> %r" % (ps,))
        if [Counter(c) for c in cs] != [Counter(i.costs[j] for i in inds) for j in range(2)]:
            bad("C17:costs:not-a-permutation", "costs() -> %r" % (cs,))
        tagseq = [h[2] for h in history]
        contiguous = all(tagseq[i] == tagseq[i + 1] or tagseq[i + 1] not in tagseq[:i + 1] for i in range(len(tagseq) - 1))
        if contiguous and Counter(tuple(p) + tuple(c[k] for c in cs) for k, p in enumerate(ps)) != rows_exp:
            bad("C17:parameters-costs:pairing", "parameters() %r and costs() %r do not pair up" % (ps, cs))
    except Exception as e:
        bad("C17:parameters-costs:exception:%s" % type(e).__name__, "raised %r" % (e,))
    # queries are views: asking twice gives the same answer, also after the caller emptied the containers it was given,
    # and querying does not change the recorded individuals
    try:
        snap = [(list(i.vector), list(i.costs), i.population_id) for i in inds]
        for label, q in (("table", lambda: res.table(transpose=False)), ("population", lambda: res.population()),
                         ("goal_on_parameter", lambda: res.goal_on_parameter(PN()[0], GN()[1], sorted=True)),
                         ("parameters", lambda: res.parameters()), ("costs", lambda: res.costs()),
                         ("pareto_front", lambda: res.pareto_front())):
            first = q()
            frozen = repr(first)
            if isinstance(first, list):
                for inner in first:
                    if isinstance(inner, list) and label in ("goal_on_parameter", "costs", "pareto_front"):
                        del inner[:]
                del first[:]
            again = q()
            if repr(again) != frozen:
                bad("C17:query-not-repeatable:%s" % label, "%s returned %s first and %r after the caller emptied the returned containers" % (label, frozen, again))
        if [(list(i.vector), list(i.costs), i.population_id) for i in inds] != snap:
            bad("C17:query-modifies-recorded-data", "recorded individuals changed by querying")
    except Exception as e:
        bad("C17:repeat:exception:%s" % type(e).__name__, "raised %r" % (e,))
    # optimum
    for gi, gname in enumerate(GN()):
        crit = criteria[gi]
        try:
            opt = res.find_optimum(gname)
        except Exception as e:
            bad("C17:find_optimum:exception:%s" % type(e).__name__, "find_optimum(%s) raised %r" % (gname, e))
            continue
        if not any(opt is i for i in inds):
            bad("C17:find_optimum:not-recorded", "find_optimum(%s) returned a foreign individual" % gname)
            continue
        best = (max if is_max(crit) else min)(i.costs[gi] for i in inds)
        if opt.costs[gi] != best:
            bad("C17:find_optimum:%s" % ("maximised" if is_max(crit) else (crit or "absent")), "find_optimum(%s) returned cost %r, best is %r" % (gname, opt.costs[gi], best))
    if len(inds) and True:
        try:
            opt = res.find_optimum()
            best = (max if is_max(criteria[0]) else min)(i.costs[0] for i in inds)
            if opt.costs[0] != best:
                bad("C17:find_optimum:default-goal", "find_optimum() returned cost %r, best is %r" % (opt.costs[0], best))
        except Exception as e:
            bad("C17:find_optimum:exception:%s" % type(e).__name__, "find_optimum() raised %r" % (e,))
    return out


def check_optimum_near_ties(costs_seq, crit):
    """find_optimum on costs that differ by a few 1e-8 (and by one ulp): the true minimum / maximum must be returned."""
    history = [((0.1 * k, 0.0), (c, 1.0), k % 2, 1) for k, c in enumerate(costs_seq)]
    problem, res, inds = build(history, (crit, "minimize"))
    out = []
    try:
        opt = res.find_optimum(GN()[0])
    except Exception as e:
        return [("C17:find_optimum:exception:%s" % type(e).__name__, "find_optimum raised %r on costs %r" % (e, costs_seq))]
    best = (max if is_max(crit) else min)(costs_seq)
    if not any(opt is i for i in inds) or opt.costs[0] != best:
        out.append(("C17:find_optimum:near-tie:%s" % (crit or "absent"), "find_optimum returned cost %r, best of %r is %r" % (opt.costs[0], costs_seq, best)))
    return out


def ref_gd(reference, computed):
    tot = 0.0
    for c in computed:
        tot += min(math.sqrt(sum((a - b) ** 2 for a, b in zip(c, r))) for r in reference)
    return tot / len(computed)


def ref_eps(reference, computed):
    return max(0.0, max(min(max(c_i - r_i for c_i, r_i in zip(c, r)) for c in computed) for r in reference))


def check_indicators(reference, computed):
    from artap.quality_indicator import gd, epsilon_add
    out = []
    desc = "reference %r computed %r" % (reference, computed)
    try:
        g = float(gd([tuple(r) for r in reference], [tuple(c) for c in computed]))
        e = ref_gd(reference, computed)
        if abs(g - e) > 1e-12 * max(1.0, e, max(abs(v) for pt in list(reference) + list(computed) for v in pt) * 1e-3):
            out.append(("C17:gd:value", "gd = %r, definition %r; %s" % (g, e, desc)))
        subset = all(tuple(c) in set(map(tuple, reference)) for c in computed)
        if (g == 0.0) != subset:
            out.append(("C17:gd:zero-iff-subset", "gd = %r, computed subset of reference: %r; %s" % (g, subset, desc)))
    except Exception as ex:
        out.append(("C17:gd:exception:%s" % type(ex).__name__, "gd raised %r; %s" % (ex, desc)))
    try:
        v = float(epsilon_add([tuple(r) for r in reference], [tuple(c) for c in computed]))
        e = ref_eps(reference, computed)
        if v < 0:
            out.append(("C17:epsilon_add:negative", "epsilon_add = %r; %s" % (v, desc)))
        if abs(v - e) > 1e-12 * max(1.0, abs(e)):
            out.append(("C17:epsilon_add:value", "epsilon_add = %r, max-min-max definition %r; %s" % (v, e, desc)))
    except Exception as ex:
        out.append(("C17:epsilon_add:exception:%s" % type(ex).__name__, "epsilon_add raised %r; %s" % (ex, desc)))
    return out


def check_shift(reference, d):
    from artap.quality_indicator import epsilon_add
    out = []
    computed = [tuple(x + d for x in r) for r in reference]
    try:
        v = float(epsilon_add([tuple(r) for r in reference], computed))
        if abs(v - d) > 1e-12:
            out.append(("C17:epsilon_add:shift", "reference %r shifted by %r: epsilon_add = %r" % (reference, d, v)))
    except Exception as ex:
        out.append(("C17:epsilon_add:exception:%s" % type(ex).__name__, "epsilon_add raised %r on %r shift %r" % (ex, reference, d)))
    return out


def subsets(points, kmax=3):
    for k in range(1, kmax + 1):
        for s in itertools.combinations(points, k):
            yield list(s)


def _shard(shard, col: Collector):
    kind = shard[0]
    if kind == "tags":
        _, n = shard
        for tags in itertools.product(TAGS, repeat=n):
            col.case()
            if n >= 2:
                col.nontrivial(("tags", tags))
            for key, msg in check_tags(list(tags)):
                col.violation(key, "tags", msg, {"tags": tags})
        col.sample({"kind": "tag-history", "tags": [5, 0, 5, 2][:n]}, 1)
    elif kind == "values":
        _, n, costs_name, first, criteria = shard
        costs = COSTS9 if costs_name == "9" else COSTS4
        fronts = (1, 2) if (n <= 2 or costs_name == "9") else (1,)
        alpha = [(v, c, t, f) for v in VECS for c in costs for t in (0, 2) for f in fronts]
        for rest in itertools.product(alpha, repeat=n - 1):
            hist = [first] + list(rest)
            col.case()
            if n >= 2:
                col.nontrivial(("val", tuple(hist), criteria))
            for key, msg in check_values(hist, criteria):
                col.violation(key, "values", msg, {"history": hist, "criteria": criteria})
        col.sample({"kind": "value-history", "history": [first] + [alpha[5]] * (n - 1), "criteria": criteria}, 1)
    elif kind == "loaded":
        # the same queries on a problem LOADED BACK from a store, with parameter and cost names whose lexical order is the
        # reverse of their declaration order
        _, criteria = shard
        MODE["loaded"] = True
        try:
            alpha = [(v, c, t, f) for v in VECS[:3] for c in COSTS4 for t in (0, 2) for f in (1, 2)]
            for n in (1, 2):
                for hist in itertools.product(alpha, repeat=n):
                    if n == 2 and hist[0] > hist[1]:
                        continue
                    col.case()
                    col.nontrivial(("loaded", hist, criteria))
                    for key, msg in check_values(list(hist), criteria):
                        col.violation(key + ":problem-loaded-from-store", "values", msg, {"history": hist, "criteria": criteria, "loaded": True})
            for tags in itertools.product(TAGS[:3], repeat=2):
                col.case()
                for key, msg in check_tags(list(tags)):
                    col.violation(key + ":problem-loaded-from-store", "tags", msg, {"tags": tags, "loaded": True})
        finally:
            MODE["loaded"] = False
        col.sample({"kind": "queries on a problem loaded back from a store", "criteria": criteria, "names": ["width", "height", "loss", "area"]}, 1)
    elif kind == "bigind":
        # fronts with hundreds of points (sizes around the powers of two and round numbers), with an outlier placed first,
        # last and in the middle, so that an average taken block by block is visible
        for n in (shard[1],):
            front = [(i / float(n), 1.0 - i / float(n)) for i in range(n)]
            for nc in sorted(set([n, max(2, n // 2 + 1), min(n, 257)])):
                for where in ("first", "last", "none"):
                    comp = [(x + 0.001 * ((7 * i) % 3), y + 0.002) for i, (x, y) in enumerate(front[:nc])]
                    if where != "none":
                        comp[{"first": 0, "last": -1, "middle": len(comp) // 2}[where]] = (3.0, 3.0)
                    col.case()
                    col.nontrivial(("bigind", n, nc, where))
                    for key, msg in check_indicators(front, comp):
                        col.violation(key + ":large-front", "bigind", "reference front of %d points, %d computed points, outlier %s: %s" % (n, nc, where, msg[:160]),
                                      {"n": n, "nc": nc, "where": where})
        col.sample({"kind": "indicators on large fronts", "sizes": [33, 257, 513, 1025]}, 1)
    elif kind == "near":
        import math
        vals = (0.5, 0.5 + 1e-8, 0.5 + 4e-8, math.nextafter(0.5, 1.0), 0.5 - 3e-8)
        for n in (2, 3):
            for seq in itertools.permutations(vals, n):
                for crit in ("minimize", "maximize", None):
                    col.case()
                    col.nontrivial(("near", seq, crit))
                    for key, msg in check_optimum_near_ties(list(seq), crit):
                        col.violation(key, "near", msg, {"costs": seq, "crit": crit})
        col.sample({"kind": "optimum over near-tie costs", "costs": [0.5, 0.50000001, 0.50000004], "criteria": "minimize"}, 1)
    elif kind == "ind":
        _, which = shard
        if which == "2d":
            pts = list(itertools.product((0.0, 0.5, 1.0), repeat=2))
        elif which == "decimal":
            pts = [(0.1, 0.7), (0.2, 0.3), (0.3, 0.1), (0.7, 0.2), (0.1, 0.1), (0.7, 0.7)]
        elif which == "large":
            pts = [(1e4 + 0.1, 2e4 + 0.7), (1e4 + 0.2, 2e4 + 0.3), (1e5 + 0.3, 1e5 + 0.1), (1e5 + 0.7, 1e5 + 0.2), (1e4 + 0.105, 2e4 + 0.7), (12345.678, 98765.4321)]
        else:
            pts = [(0.0, 0.0, 0.0), (1.0, 0.0, 0.5), (0.0, 1.0, 0.5), (0.5, 0.5, 1.0), (1.0, 1.0, 1.0), (0.25, 0.75, 0.0)]
        for ref in subsets(pts):
            for comp in subsets(pts):
                col.case()
                if ref != comp:
                    col.nontrivial(("ind", which, tuple(ref), tuple(comp)))
                for key, msg in check_indicators(ref, comp):
                    col.violation(key, "ind", msg, {"reference": ref, "computed": comp})
            for d in (0.0, 0.25, 1.0):
                col.case()
                for key, msg in check_shift(ref, d):
                    col.violation(key, "shift", msg, {"reference": ref, "d": d})
        # repeated points
        for ref in ([pts[0], pts[0]], [pts[1], pts[2], pts[1]]):
            for comp in subsets(pts, 2):
                col.case()
                for key, msg in check_indicators(ref, comp) + check_indicators(comp, ref):
                    col.violation(key, "ind", msg, {"reference": ref, "computed": comp})
        col.sample({"kind": "indicator", "reference": pts[:2], "computed": pts[3:5]}, 1)


def replay(sub, case):
    if sub == "bigind":
        n, nc, where = case["n"], case["nc"], case["where"]
        front = [(i / float(n), 1.0 - i / float(n)) for i in range(n)]
        comp = [(x + 0.001 * ((7 * i) % 3), y + 0.002) for i, (x, y) in enumerate(front[:nc])]
        if where != "none":
            comp[{"first": 0, "last": -1, "middle": len(comp) // 2}[where]] = (3.0, 3.0)
        return check_indicators(front, comp)
    if case.get("loaded") and not MODE["loaded"]:
        MODE["loaded"] = True
        try:
            return replay(sub, case)
        finally:
            MODE["loaded"] = False
    tup = lambda h: (tuple(h[0]), tuple(h[1]), h[2], h[3])
    if sub == "tags":
        return check_tags(list(case["tags"]))
    if sub == "values":
        return check_values([tup(h) for h in case["history"]], tuple(case["criteria"]))
    if sub == "near":
        return check_optimum_near_ties(list(case["costs"]), case["crit"])
    if sub == "ind":
        return check_indicators([tuple(r) for r in case["reference"]], [tuple(c) for c in case["computed"]])
    if sub == "shift":
        return check_shift([tuple(r) for r in case["reference"]], case["d"])
    raise ValueError(sub)


def run(tier, seed):
    shards = [("tags", n) for n in (1, 2, 3, 4)] + ([("tags", 5)] if tier == "thorough" else [])
    for criteria in CRITERIA:
        for n in (1, 2):
            alpha = [(v, c, t, f) for v in VECS for c in COSTS9 for t in (0, 2) for f in (1, 2)]
            for first in alpha:
                shards.append(("values", n, "9", first, criteria))
        cn = "9" if tier == "thorough" else "4"
        costs = COSTS9 if cn == "9" else COSTS4
        alpha = [(v, c, t, f) for v in VECS for c in costs for t in (0, 2) for f in ((1, 2) if cn == "9" else (1,))]
        for first in alpha:
            shards.append(("values", 3, cn, first, criteria))
    shards += [("ind", "2d"), ("ind", "3d"), ("ind", "decimal"), ("ind", "large"), ("near",)]
    shards += [("loaded", criteria) for criteria in CRITERIA] + [("bigind", n) for n in (32, 33, 64, 65, 100, 256, 257, 300, 512, 513) + ((1000, 1025) if tier == "thorough" else ())]
    shards.sort(key=lambda s: 0 if s[0] == "ind" or (s[0] == "values" and s[1] == 3) else 1)
    col = run_shards(_shard, shards)
    return col, {"exhaustive": True}


RULE += (' The same value queries and tag queries on a problem loaded back from a store (ProblemViewDataStore) whose parameter and cost names are in reverse lexical order (histories of 1 and 2 individuals, all criteria).')

RULE += (' Beyond small: indicators on fronts of 32..513 (thorough 1025) points with an outlier first / last; loaded problems whose individuals are of different classes.')
