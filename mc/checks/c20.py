"""C20 -- design-point equality means equal coordinates and agrees with hashing.

Exhaustive over vectors n=1..4 on a small lattice, every non-empty subset of coordinates perturbed by every listed
amount; derived container behaviour (in, set, list.remove, Archive.remove); scripted GeneticAlgorithm.generate().
"""
import itertools

from ..core.common import Collector, run_shards

PROPERTY = "C20"
LEVEL = "exploration"
RULE = ("all base vectors over {-2,-1,0,1}^n, n=1..4, x every non-empty coordinate subset x every assignment of "
        "perturbation amounts {5e-11, 2e-10, 1.0, 1e300} to the subset; both argument orders. large-magnitude vectors (1e5..3e12) with absolute differences 1e-6..16. Container clauses over all "
        "ordered pairs/triples of lattice vectors (n<=2 incl. the hash collision -1.0/-2.0). generate(): every script of "
        "child pairs over a 2-D lattice, population sizes 2..4, with stub selector/crossover/mutator. "
        "Non-trivial = the two vectors differ in at least one coordinate; distinct = distinct case tuples.")
ASSUMPTIONS = ["vectors of equal length n>=1 with finite float coordinates",
               "amounts avoid the 1e-10 threshold itself (5e-11 below, 2e-10 above)"]

LAT = (-2.0, -1.0, 0.0, 1.0)
# children handed to generate(): shared coordinates, a near-equal pair and the hash collision hash(-1.0) == hash(-2.0)
LAT2 = [(0.0, 0.0), (0.0, 1.0), (1.0, 0.0), (1.0 + 5e-11, 0.0), (-1.0, 0.0), (-2.0, 0.0)]
AMOUNTS = (5e-11, 2e-10, 1.0, 1e300)


def I(v):
    from artap.individual import Individual
    return Individual(list(v))


def ref_eq(a, b):
    return all(abs(x - y) < 1e-10 for x, y in zip(a, b))


def check_eq(a, b):
    out = []
    ia, ib = I(a), I(b)
    exp = ref_eq(a, b)
    for x, y, xa, ya, tag in ((ia, ib, a, b, "ab"), (ib, ia, b, a, "ba")):
        try:
            got = (x == y)
        except Exception as e:  # an exception where a verdict is promised
            out.append(("C20:eq:exception", "Individual(%r) == Individual(%r) raised %r" % (xa, ya, e)))
            continue
        if bool(got) != exp:
            diff = [i for i in range(len(a)) if abs(a[i] - b[i]) >= 1e-10]
            where = "none" if not diff else ("last" if diff == [len(a) - 1] else
                                             ("includes-last" if len(a) - 1 in diff else "not-last"))
            out.append(("C20:eq:expected=%s:differing=%s" % (exp, where),
                        "Individual(%r) == Individual(%r) is %r; coordinates differ at %r" % (xa, ya, got, diff)))
    if list(a) == list(b) and hash(ia) != hash(ib):
        out.append(("C20:hash:identical-vectors", "identical vectors %r hash differently" % (a,)))
    return out


def check_containers(vs, probe):
    """vs: list of pairwise distinct (by definition) vectors; probe: a vector. Membership/set/remove by definition."""
    from artap.archive import Archive
    out = []
    inds = [I(v) for v in vs]
    p = I(probe)
    exp_in = any(ref_eq(probe, v) for v in vs)
    if (p in inds) != exp_in:
        out.append(("C20:in:expected=%s" % exp_in, "Individual(%r) in %r is %r" % (probe, vs, p in inds)))
    s = set(inds)
    if len(s) != len(vs):
        out.append(("C20:set:distinct-merged", "set of distinct designs %r has %d members" % (vs, len(s))))
    dup = set(inds + [I(v) for v in vs])
    if len(dup) != len(vs):
        out.append(("C20:set:identical-not-merged", "set of %r twice has %d members" % (vs, len(dup))))
    # the set-based de-duplication inside nondominated_truncate: every design offered twice (different objects), room for all
    try:
        from artap.operators import nondominated_truncate
        pop = [I(v) for v in vs] + [I(v) for v in vs]
        for k, x in enumerate(pop):
            x.features["front_number"], x.features["crowding_distance"] = 1, float(k % len(vs))
        got = sorted(tuple(float(c) for c in x.vector) for x in nondominated_truncate(pop, 2 * len(vs) + 1))
        want = sorted(tuple(float(c) for c in v) for v in vs)
        if got != want:
            lost = [v for v in want if v not in got]
            out.append(("C20:truncate-dedup:%s" % ("distinct-design-discarded" if lost else "repeated-design-kept"),
                        "nondominated_truncate of %r, each twice, with room for all keeps %r" % (vs[:6], got[:8])))
    except Exception as e:
        out.append(("C20:truncate-dedup:exception:%s" % type(e).__name__, "nondominated_truncate of %r twice raised %r" % (vs[:6], e)))
    # list.remove / Archive.remove must take out exactly the design asked for
    for k, v in enumerate(vs):
        lst = list(inds)
        lst.remove(I(v))
        left = [tuple(x.vector) for x in lst]
        exp = [tuple(w) for j, w in enumerate(vs) if j != k]
        if left != exp:
            out.append(("C20:list.remove:wrong-element", "remove(Individual(%r)) from %r left %r" % (v, vs, left)))
        ar = Archive()
        ar._contents = list(inds)
        ok = ar.remove(I(v))
        left = [tuple(x.vector) for x in ar]
        if not ok or left != exp:
            out.append(("C20:Archive.remove:wrong-element", "Archive.remove(%r) from %r -> %r left %r" % (v, vs, ok, left)))
    if not exp_in:
        lst = list(inds)
        try:
            lst.remove(p)
            out.append(("C20:list.remove:removed-distinct", "remove(Individual(%r)) from %r removed something" % (probe, vs)))
        except ValueError:
            pass
        ar = Archive()
        ar._contents = list(inds)
        if ar.remove(p) or len(ar) != len(vs):
            out.append(("C20:Archive.remove:removed-distinct", "Archive.remove(%r) from %r removed something" % (probe, vs)))
    return out


def check_moved(v1, v2, how):
    """A point is hashed, then moved (vector changed in place or reassigned), then compared with a fresh point at the new place."""
    out = []
    a = I(v1)
    h0 = hash(a)
    in_set = {a}
    if how == "in_place":
        for i, w in enumerate(v2):
            a.vector[i] = w
    elif how == "reassign":
        a.vector = list(v2)
    else:
        other = I(v2)
        a.sync(other)
    b = I(v2)
    if not (a == b and b == a):
        out.append(("C20:moved:eq", "point moved %s from %r to %r is not equal to a fresh point there" % (how, v1, v2)))
    if hash(a) != hash(b):
        out.append(("C20:moved:hash-stale:%s" % how, "point hashed at %r, moved %s to %r: hash differs from a fresh point with the identical vector" % (v1, how, v2)))
    if len(set([a, b])) != 1:
        out.append(("C20:moved:set-keeps-repeat", "set([moved, fresh]) at %r has %d members" % (v2, len(set([a, b])))))
    return out


ID_HOWS = ("same_id", "deepcopy", "copy", "from_dict", "counter_reset", "distinct_ids")


def check_ids(a, b, how):
    """Equality is about coordinates, whatever the two objects' ids are (copies keep the id of their original, loaded
    individuals carry stored ids, the id counter can restart)."""
    import copy
    from artap.individual import Individual
    out = []
    ia = I(a)
    if how == "same_id":
        ib = I(b)
        ib.id = ia.id
    elif how == "deepcopy":
        ib = copy.deepcopy(ia)
        ib.vector = list(b)
    elif how == "copy":
        ib = copy.copy(ia)
        ib.vector = list(b)
    elif how == "from_dict":
        d = I(b).to_dict()
        d["id"] = ia.id
        ib = Individual.from_dict(d)
    elif how == "counter_reset":
        Individual.counter = ia.id
        ib = I(b)
    else:
        ib = I(b)
    exp = ref_eq(a, b)
    same = "equal-ids" if ia.id == ib.id else "different-ids"
    for x, y, tag in ((ia, ib, "ab"), (ib, ia, "ba")):
        try:
            got = bool(x == y)
        except Exception as e:
            out.append(("C20:ids:exception", "%r == %r (%s via %s) raised %r" % (a, b, same, how, e)))
            continue
        if got != exp:
            out.append(("C20:ids:eq:expected=%s:%s" % (exp, same), "Individual(%r) == Individual(%r) is %r with %s (%s)" % (a, b, got, same, how)))
    if list(a) == list(b) and hash(ia) != hash(ib):
        out.append(("C20:ids:hash:%s" % same, "identical vectors %r hash differently with %s (%s)" % (a, same, how)))
    if (ib in [ia]) != exp:
        out.append(("C20:ids:in:expected=%s:%s" % (exp, same), "Individual(%r) in [Individual(%r)] is %r with %s (%s)" % (b, a, ib in [ia], same, how)))
    if len({ia, ib}) != (1 if list(a) == list(b) else 2) and (list(a) == list(b) or not exp):
        out.append(("C20:ids:set:%s" % same, "set of %r and %r has %d members with %s (%s)" % (a, b, len({ia, ib}), same, how)))
    return out


CLASSES = ("Individual", "IndividualNSGAII", "IndividualEpsMOEA", "IndividualSwarm", "from_dict")


def make_as(cls, v):
    """A design point as one of the carrier classes the framework uses (loaded individuals are plain Individuals)."""
    from artap.individual import Individual
    if cls == "Individual":
        return Individual(list(v))
    if cls == "IndividualNSGAII":
        from artap.algorithm_NSGAII import IndividualNSGAII
        return IndividualNSGAII(list(v))
    if cls == "IndividualEpsMOEA":
        from artap.algorithm_genetic import IndividualEpsMOEA
        return IndividualEpsMOEA(list(v))
    if cls == "IndividualSwarm":
        from artap.algorithm_swarm import IndividualSwarm
        return IndividualSwarm(list(v))
    return Individual.from_dict(Individual(list(v)).to_dict())


def check_classes(a, b, ca, cb):
    """Equality is about coordinates, whichever classes carry the two points."""
    from artap.archive import Archive
    out = []
    ia, ib = make_as(ca, a), make_as(cb, b)
    exp = ref_eq(a, b)
    tag = "%s/%s" % (ca, cb)
    for x, y in ((ia, ib), (ib, ia)):
        try:
            got = bool(x == y)
        except Exception as e:
            out.append(("C20:classes:exception", "%s(%r) == %s(%r) raised %r" % (type(x).__name__, x.vector, type(y).__name__, y.vector, e)))
            continue
        if got != exp:
            out.append(("C20:classes:eq:expected=%s" % exp, "%s(%r) == %s(%r) is %r" % (type(x).__name__, list(x.vector), type(y).__name__, list(y.vector), got)))
    if list(a) == list(b) and hash(ia) != hash(ib):
        out.append(("C20:classes:hash", "identical vectors %r hash differently as %s" % (a, tag)))
    if (ib in [ia]) != exp or (ia in [ib]) != exp:
        out.append(("C20:classes:in:expected=%s" % exp, "membership of %r in [%r] as %s" % (b, a, tag)))
    if list(a) == list(b) and len({ia, ib}) != 1:
        out.append(("C20:classes:set", "set of two carriers (%s) of the point %r has %d members" % (tag, a, len({ia, ib}))))
    if exp:
        ar = Archive()
        ar._contents = [ia]
        if not ar.remove(ib) or len(ar) != 0:
            out.append(("C20:classes:Archive.remove", "Archive.remove of %r carried by %s from an archive holding it as %s failed" % (b, cb, ca)))
    return out


class ScriptExhausted(Exception):
    pass


def check_generate(script, n):
    """script: list of (child1, child2) vector pairs handed out by a stub crossover; n: population size."""
    from artap.algorithm_genetic import GeneticAlgorithm
    from artap.individual import Individual
    from .c_support import make_problem
    out = []
    problem = make_problem(n_params=2)
    alg = GeneticAlgorithm(problem)
    alg.options['max_population_size'] = n
    it = iter(script)
    used = [0]

    class Sel:
        def select(self, pop):
            return pop[0]

    class Cross:
        def cross(self, a, b):
            try:
                c1, c2 = next(it)
            except StopIteration:
                raise ScriptExhausted()
            used[0] += 1
            return list(c1), list(c2)

    class Mut:
        def mutate(self, p, *a):
            return list(p)

    alg.selector, alg.crossover, alg.mutator = Sel(), Cross(), Mut()
    parents = [Individual([0.5, 0.5])]
    # reference: accept every child that differs from all accepted ones, until n are accepted
    acc, need = [], None
    for k, (c1, c2) in enumerate(script):
        for c in (c1, c2):
            if len(acc) < n and not any(ref_eq(c, a) for a in acc):
                acc.append(tuple(c))
        if len(acc) >= n:
            need = k + 1
            break
    try:
        res = alg.generate(parents)
    except ScriptExhausted:
        if need is not None:
            out.append(("C20:generate:rejected-distinct-child",
                        "generate(N=%d) wanted more than %d scripted pairs of %r; reference fills N with %r" % (
                            n, need, script, acc)))
        return out
    got = [tuple(x.vector) for x in res]
    if need is None:
        out.append(("C20:generate:accepted-repeat",
                    "generate(N=%d) finished on script %r although it holds only %d distinct designs: %r" % (
                        n, script, len(acc), got)))
        return out
    if got != acc:
        out.append(("C20:generate:offspring-differ", "generate(N=%d) on %r returned %r, reference %r" % (n, script, got, acc)))
    elif used[0] != need:
        out.append(("C20:generate:pairs-consumed", "generate(N=%d) consumed %d pairs, reference %d" % (n, used[0], need)))
    return out


def big_script(n, style):
    """Child streams for populations far larger than the enumerated ones."""
    pairs = []
    k = 0
    while len(pairs) < n + 8:
        if style == "near":        # distinct designs 1e-7 apart (far more than the 1e-10 of the rule)
            a, b = (0.5 + 1e-7 * k, 0.25), (0.5 + 1e-7 * (k + 1), 0.25)
        elif style == "repeats":   # every third child repeats an earlier one exactly
            a, b = (0.01 * (k // 3), 1.0), (0.01 * (k + 1), -1.0 if k % 3 else 1.0)
        else:                      # "scaled": large coordinates whose relative differences are tiny
            a, b = (1e6 + 1e-3 * k, 2.0), (1e6 + 1e-3 * (k + 1), 2.0)
        pairs.append((a, b))
        k += 2
    return pairs


def _shard(shard, col: Collector):
    kind = shard[0]
    if kind == "biggen":
        for n in (31, 32, 33, 34, 40, 63, 64, 65, 70, 100, 129, 257):
            for style in ("near", "repeats", "scaled"):
                col.case()
                col.nontrivial(("biggen", n, style))
                for key, msg in check_generate(big_script(n, style), n):
                    col.violation(key + ":large-population", "biggen", msg[:300], {"n": n, "style": style})
        # long vectors: equality decided by ONE coordinate at every position around the sizes where fast paths would switch on
        for d in (31, 32, 33, 64, 65, 100, 128, 129, 257, 1000, 1025):
            base = tuple(float(i % 7) for i in range(d))
            for pos in sorted(set([0, 1, d // 2, d - 2, d - 1] + [q for q in (7, 8, 15, 16, 31, 32, 63, 64, 99, 127, 128, 255, 256, 511, 512, 999, 1023) if q < d])):
                for am in (2e-10, 1.0, -5e-11):
                    b = list(base)
                    b[pos] += am
                    col.case()
                    col.nontrivial(("longeq", d, pos, am))
                    for key, msg in check_eq(base, tuple(b)):
                        col.violation(key + ":long-vector", "longeq", "dimension %d, coordinate %d differs by %r: %s" % (d, pos, am, msg[:120]), {"d": d, "pos": pos, "am": am})
        # big containers: membership / set / remove among 300 distinct designs
        vs = [(float(i), float(i % 13)) for i in range(300)]
        for probe in ((5.0, 5.0), (299.0, 0.0), (300.0, 1.0), (150.0, 7.0 + 2e-10)):
            col.case()
            for key, msg in check_containers(vs, probe):
                col.violation(key + ":large-container", "cont", msg[:300], {"vs": vs, "probe": probe})
        col.sample({"kind": "large populations in generate(), long vectors, big containers"}, 1)
        return
    if kind == "eq":
        _, n, first = shard
        for rest in itertools.product(LAT, repeat=n - 1):
            base = (first,) + rest
            col.case()
            for key, msg in check_eq(base, base):
                col.violation(key, "eq", msg, {"a": base, "b": base})
            for r in range(1, n + 1):
                for subset in itertools.combinations(range(n), r):
                    for amounts in itertools.product(AMOUNTS, repeat=r):
                        for sgn in (1.0, -1.0):
                            b = list(base)
                            for i, am in zip(subset, amounts):
                                b[i] = b[i] + sgn * am
                            b = tuple(b)
                            col.case()
                            col.nontrivial(("eq", base, b))
                            for key, msg in check_eq(base, b):
                                col.violation(key, "eq", msg, {"a": base, "b": b})
        col.sample({"kind": "eq", "a": [first] * n, "b": [first] * (n - 1) + [first + 2e-10], "expected_equal": False}, 1)
    elif kind == "types":
        import numpy as np
        conv = {"int": int, "float": float, "np.float64": np.float64, "np.int64": np.int64, "np.float32": np.float32}
        for base in itertools.product((-2, -1, 0, 1, 3), repeat=2):
            for ta, tb in itertools.product(conv, repeat=2):
                col.case()
                col.nontrivial(("types", base, ta, tb))
                a, b = I([conv[ta](v) for v in base]), I([conv[tb](v) for v in base])
                if not (a == b and b == a):
                    col.violation("C20:types:eq", "types", "the same point %r given as %s and as %s compares unequal" % (base, ta, tb), {"base": base, "ta": ta, "tb": tb})
                elif hash(a) != hash(b) or len({a, b}) != 1:
                    col.violation("C20:types:hash", "types", "the same point %r given as %s and as %s hashes differently" % (base, ta, tb), {"base": base, "ta": ta, "tb": tb})
        for a, b in (((-0.0, 1.0), (0.0, 1.0)), ((0.0,), (-0.0,))):
            col.case()
            x, y = I(a), I(b)
            if not (x == y) or hash(x) != hash(y):
                col.violation("C20:types:negative-zero", "types", "%r and %r: equal %r, hashes equal %r" % (a, b, x == y, hash(x) == hash(y)), {"base": a, "ta": "float", "tb": "float"})
        # designs built one after the other from ONE re-used buffer (numpy array or list), as sampling loops do: each
        # individual is the design the buffer held when it was created
        for cls in CLASSES[:4]:
            for kind_ in ("ndarray", "list"):
                for v1, v2 in (((1.0, 2.0), (1.0, 3.0)), ((0.0, 0.0), (5.0, 0.0)), ((-1.0, 1.0), (-2.0, 1.0))):
                    col.case()
                    col.nontrivial(("buffer", cls, kind_, v1, v2))
                    buf = np.array(v1, dtype=float) if kind_ == "ndarray" else list(v1)
                    a = make_as(cls, buf) if kind_ == "list" else type(make_as(cls, [0.0]))(buf)
                    buf[0], buf[1] = v2
                    b = make_as(cls, buf) if kind_ == "list" else type(a)(buf)
                    c = a.copy() if hasattr(a, "copy") and cls in ("IndividualNSGAII", "IndividualSwarm") else None
                    ok = [float(x) for x in a.vector] == list(v1) and [float(x) for x in b.vector] == list(v2) and not (a == b) and len({a, b}) == 2
                    if c is not None:
                        buf2 = c.vector
                        buf2[0] = 99.0
                        ok = ok and [float(x) for x in a.vector] == list(v1)
                    if not ok:
                        col.violation("C20:buffer:design-follows-the-callers-buffer:%s" % kind_, "types",
                                      "%s built from a %s holding %r, buffer then changed to %r and used for a second design: vectors %r / %r, equal %r" % (
                                          cls, kind_, v1, v2, list(a.vector), list(b.vector), a == b), {"base": v1, "ta": cls, "tb": kind_})
        col.sample({"kind": "one point in different numeric types", "point": [1, -2], "types": list(conv)}, 1)
    elif kind == "ids":
        allv = list(itertools.product(LAT, repeat=2)) + [(v,) for v in LAT] + [(1.0, 0.0, -1.0), (1.0, 0.0, -2.0), (1.0 + 5e-11, 0.0, -1.0)]
        for a in allv:
            for b in allv:
                if len(a) != len(b):
                    continue
                for how in ID_HOWS:
                    col.case()
                    col.nontrivial(("ids", a, b, how))
                    for key, msg in check_ids(a, b, how):
                        col.violation(key, "ids", msg, {"a": a, "b": b, "how": how})
        col.sample({"kind": "equal ids, different points", "a": [1.0, 0.0], "b": [1.0, -1.0], "how": "deepcopy"}, 1)
    elif kind == "classes":
        allv = list(itertools.product(LAT, repeat=2)) + [(v,) for v in LAT] + [(1.0 + 5e-11, 0.0), (1.0, 0.0 + 2e-10)]
        for a in allv:
            for b in allv:
                if len(a) != len(b):
                    continue
                for ca in CLASSES:
                    for cb in CLASSES:
                        col.case()
                        col.nontrivial(("classes", a, b, ca, cb))
                        for key, msg in check_classes(a, b, ca, cb):
                            col.violation(key, "classes", msg, {"a": a, "b": b, "ca": ca, "cb": cb})
        col.sample({"kind": "one point carried by different individual classes", "classes": list(CLASSES)}, 1)
    elif kind == "moved":
        allv = list(itertools.product(LAT, repeat=2)) + [(v,) for v in LAT]
        for v1 in allv:
            for v2 in allv:
                if len(v1) != len(v2) or v1 == v2:
                    continue
                for how in ("in_place", "reassign", "sync"):
                    col.case()
                    col.nontrivial(("moved", v1, v2, how))
                    for key, msg in check_moved(v1, v2, how):
                        col.violation(key, "moved", msg, {"v1": v1, "v2": v2, "how": how})
        col.sample({"kind": "moved-point", "from": [-1.0, 0.0], "to": [1.0, 0.0], "how": "in_place"}, 1)
    elif kind == "big":
        # large-magnitude coordinates: absolute 1e-10 is the rule, whatever the magnitude (no relative tolerance)
        bigs = (1e5, 250000.0, -1e8, 3.0e12)
        amts = (0.0, 1e-6, 1.0, 16.0)
        for n in (1, 2):
            for base in itertools.product(bigs, repeat=n):
                for am in itertools.product(amts, repeat=n):
                    for sgn in (1.0, -1.0):
                        b = tuple(x + sgn * a for x, a in zip(base, am))
                        col.case()
                        if b != base:
                            col.nontrivial(("big", base, b))
                        for key, msg in check_eq(base, b):
                            col.violation(key, "eq", msg, {"a": base, "b": b})
                        if b != base:
                            for key, msg in check_containers([base], b):
                                col.violation(key, "cont", msg, {"vs": [base], "probe": b})
        col.sample({"kind": "eq-large-magnitude", "a": [250000.0], "b": [250001.0], "expected_equal": False}, 1)
    elif kind == "cont":
        _, n = shard
        allv = list(itertools.product(LAT, repeat=n))
        for k in (1, 2, 3):
            for vs in itertools.permutations(allv, k) if n == 1 else itertools.combinations(allv, k):
                for probe in allv:
                    col.case()
                    col.nontrivial(("cont", vs, probe))
                    for key, msg in check_containers(list(vs), probe):
                        col.violation(key, "cont", msg, {"vs": vs, "probe": probe})
        col.sample({"kind": "containers", "vs": [[-1.0] * n, [-2.0] + [-1.0] * (n - 1)], "probe": [-2.0] * n}, 1)
    elif kind == "gen":
        _, npop, c_first = shard
        lat2 = LAT2
        pairs = [(a, b) for a in lat2 for b in lat2]
        for p2 in pairs:
            for p3 in pairs:
                script = [c_first, p2, p3]
                col.case()
                col.nontrivial(("gen", npop, tuple(script)))
                for key, msg in check_generate(script, npop):
                    col.violation(key, "gen", msg, {"script": script, "n": npop})
        col.sample({"kind": "generate", "n": npop, "script": [c_first, pairs[1], pairs[7]]}, 1)


def replay(sub, case):
    t = lambda v: tuple(v)
    if sub == "eq":
        return check_eq(t(case["a"]), t(case["b"]))
    if sub == "cont":
        return check_containers([t(v) for v in case["vs"]], t(case["probe"]))
    if sub == "types":
        import numpy as np
        conv = {"int": int, "float": float, "np.float64": np.float64, "np.int64": np.int64, "np.float32": np.float32}
        a, b = I([conv[case["ta"]](v) for v in case["base"]]), I([conv[case["tb"]](v) for v in case["base"]])
        return [] if (a == b and hash(a) == hash(b)) else [("C20:types", "point %r as %s / %s" % (case["base"], case["ta"], case["tb"]))]
    if sub == "biggen":
        return check_generate(big_script(case["n"], case["style"]), case["n"])
    if sub == "longeq":
        base = tuple(float(i % 7) for i in range(case["d"]))
        b = list(base)
        b[case["pos"]] += case["am"]
        return check_eq(base, tuple(b))
    if sub == "classes":
        return check_classes(t(case["a"]), t(case["b"]), case["ca"], case["cb"])
    if sub == "ids":
        return check_ids(t(case["a"]), t(case["b"]), case["how"])
    if sub == "moved":
        return check_moved(t(case["v1"]), t(case["v2"]), case["how"])
    if sub == "gen":
        return check_generate([(t(a), t(b)) for a, b in case["script"]], case["n"])
    raise ValueError(sub)


def run(tier, seed):
    shards = []
    for n in (1, 2, 3, 4):
        for first in LAT:
            shards.append(("eq", n, first))
    shards += [("cont", 1), ("cont", 2), ("big",), ("moved",), ("types",), ("ids",), ("classes",), ("biggen",)]
    lat2 = LAT2
    firsts = [(a, b) for a in lat2 for b in lat2]
    for npop in (2, 3, 4):
        for f in (firsts if tier == "thorough" else firsts[::3]):
            shards.append(("gen", npop, f))
    shards.sort(key=lambda s: 0 if s[0] == "eq" and s[1] == 4 else 1)
    col = run_shards(_shard, shards)
    return col, {"exhaustive": True, "lattice": LAT, "amounts": AMOUNTS}


RULE += (' Pairs with equal ids (assigned, copy, deepcopy, from_dict, restarted counter) and pairs carried by different individual classes (5 x 5 class pairs): equality, hash, membership, set, Archive.remove.')

RULE += (' Beyond small: generate() for populations of 31..257 over children 1e-7 apart, with exact repeats and with large coordinates; vectors of 31..1025 coordinates differing at one position; containers of 300 designs; designs built from a re-used numpy buffer.')
RULE += (' Container behaviours include the set-based de-duplication of nondominated_truncate (every design offered twice, room for all).')
