"""C11 -- a crash at any moment leaves the SQLite store readable and consistent.

Process death at every harness-visible event of three histories (serial sweep, NSGA-II run, 2-worker sweep under every
schedule within the pre-emption bound); thorough: SIGKILL before every file-mutating system call (strace injection).
"""
import json
import os
import sqlite3
import tempfile

from ..core.common import Collector, run_shards, HarnessError
from ..core import crash
from ..core.explorer import Ctx, explore

PROPERTY = "C11"
LEVEL = "fault_enumeration"
RULE = ("histories H1 (serial sweep of 3 designs), H2 (NSGA-II N=2, G=2: evaluate-time sync, per-generation re-sync, final sync_all), H4 (serial sweep in which one design fails transiently twice and is re-sampled), H5 (serial sweep in which the second design's synchronisation meets seven 'database is locked' answers of another writer before it gets through), H6 (two designs under the gradient evaluator: rows that refer to finite-difference children by id, written before those children), H7 (1100 individuals written by one sync_all, changed, written again: death at every event that is not an upsert and at every 97th upsert), H8 (an NSGA-II run followed by a sweep on the same store: individuals of two classes), H7r (the same as H7 with 500 individuals in rewrite mode), H10 (a design left 'in progress' by a foreign exception and written by a later sweep), H11 (a stored design moved by the user and evaluated again), H9 / H9d (the sweep of H1 on a file name under which an earlier run, killed inside a cache-spilling transaction, left its database file and hot journal: rewrite mode / the user deleted the database file only), H3 "
        "(sweep of 2 designs on 2 workers, every schedule with <=1 (thorough 2) pre-emptions): the writer process is killed (os._exit, no "
        "clean-up) at EVERY event index (objective entry/exit, before/after each connect / execute / commit); additionally SIGKILL "
        "immediately before EVERY file-mutating system call (pwrite64, unlink, ftruncate, fsync, ...) of H1 (thorough: H1, H2, H4 and H5), which reaches death inside a commit. After each death the "
        "file is reopened by ProblemViewDataStore and plain sqlite3: view opens, integrity_check ok, every acknowledged id has a row, "
        "every row is complete JSON whose costs are [] or exactly f(vector) with matching signed costs. Crashes before the store's creation "
        "has committed are counted as pre_creation and not judged. Non-trivial = crash point after creation; distinct = distinct "
        "(history, schedule, crash index).")
RULE += (" After each death of H1, H4, H7, H7r, H10, H11 the files are recovered in three ways, each on its own copy: a read-mode view at once; the same view two days later "
         "by the clock; the run resumed first (store opened again in write mode) and then the view. The second pass of H7 / H7r attaches kilobytes of data to every design so that the one "
         "transaction exceeds SQLite's page cache (pages reach the file before the commit). The objective attaches data derived from the vector to every design; an acknowledged design keeps it.")
ASSUMPTIONS = ["process death only (page cache survives): power loss is outside the statement, so synchronous=0 is acceptable",
               "acknowledgement = sync_individual / sync_all has returned to its caller (logged with one write() per id)",
               "the objective is deterministic and known to the oracle"]


def f(v):
    return [1.5 * v[0] + 0.25 * v[1] + 0.125, (v[0] - 1.0) ** 2]


def expected_signed(costs):
    import numpy as np
    return [float(1 * np.round(costs[0], decimals=7)), float(-1 * np.round(costs[1], decimals=7))]


def run_history(name, db, ack_fd, on_point, ctx=None, seed=0):
    """Executed in the process that is going to die. on_point(label) is called at every event."""
    from artap.datastore import SqliteDataStore
    from artap.individual import Individual
    from artap.individual import Individual
    from ..core.sched import Hooks, sql_proxy, scheduled
    from ..core import shim as shim_mod
    from .c_support import make_problem, reset_ids
    reset_ids()
    holder = {"sched": None}

    calls = {"n": 0}

    def before(problem, individual):
        calls["n"] += 1
        if name == "H4" and calls["n"] in (2, 3):          # the second design fails twice, transiently
            on_point("obj:enter")
            raise (TimeoutError if calls["n"] == 2 else RuntimeError)("transient")
        s = holder.get("sched_holder", {}).get("sched") if holder.get("sched_holder") else None
        if s is not None:
            s.point("obj:enter")
        else:
            on_point("obj:enter")

    def after(problem, individual):
        # post-processing data computed by the objective for THIS vector (field values, derived quantities)
        individual.custom["squares"] = [float(x) * float(x) for x in individual.vector]
        s = holder.get("sched_holder", {}).get("sched") if holder.get("sched_holder") else None
        if s is not None:
            s.point("obj:exit")
        else:
            on_point("obj:exit")
    problem = make_problem(n_params=2, bounds=[[0.0, 1.0], [-2.0, 2.0]], criteria=["minimize", "maximize"], f=f,
                           before=before, after=after)

    class ForcedLock:
        """Environment answers for H5: another writer holds the file during the second design's synchronisation, the store
        meets `left` "database is locked" answers at its upsert before the lock goes away."""
        left = 0

        def choose(self, kind, n, price, label):
            if self.left > 0:
                self.left -= 1
                return 1
            return 0
    forced = ForcedLock()
    synced = {"n": 0}

    def attach(store):
        inner_si, inner_sa = store.sync_individual, store.sync_all

        tokens = {}

        def line(tag, individual):
            tok = tokens.setdefault(id(individual), (len(tokens), individual))[0]     # keeps the object alive: ids of objects stay unique
            return "%s %d %d %s\n" % (tag, tok, individual.id, json.dumps([[float(x) for x in individual.vector], bool(individual.custom.get("squares"))]))

        def si(individual, *a, **kw):       # the store's retry calls itself through this attribute, possibly with arguments
            synced["n"] += 1
            if name == "H5" and synced["n"] == 2:
                forced.left = 7
            os.write(ack_fd, line("B", individual).encode())
            r = inner_si(individual, *a, **kw)
            os.write(ack_fd, line("A", individual).encode())
            return r

        def sa():
            os.write(ack_fd, "".join(line("B", i) for i in problem.individuals).encode())
            r = inner_sa()
            os.write(ack_fd, "".join(line("A", i) for i in problem.individuals).encode())
            return r
        store.sync_individual, store.sync_all = si, sa
        problem.data_store = store
        os.write(ack_fd, b"C\n")            # the store has been created (constructor returned)
    if name in ("H1", "H2", "H4", "H5", "H6", "H7", "H7r", "H7p", "H8", "H9", "H9d", "H10", "H11"):
        hooks = Hooks(None, on_point=on_point, zero_timeout=False)
        if name == "H5":
            hooks.ctx, hooks.extlock_max = forced, 7
        with sql_proxy(hooks):
            if name == "H7r":
                open(db, "w").close()
                attach(SqliteDataStore(problem, database_name=db, mode="rewrite"))
            elif name == "H9":
                attach(SqliteDataStore(problem, database_name=db, mode="rewrite"))
            else:
                attach(SqliteDataStore(problem, database_name=db))
            if hasattr(on_point, "mark"):
                on_point.mark("created")
            if name == "H10":
                # a design whose objective raises something that is no transient failure (the caller catches it) stays
                # 'in progress'; a later sweep on the same problem writes it with sync_all. It is a recorded individual.
                from artap.algorithm_sweep import SweepAlgorithm
                from artap.operators import CustomGenerator
                problem.h_before_extra = True
                gen = CustomGenerator(problem.parameters)
                gen.init([[0.25, -1.0], [0.5, 0.0], [0.75, 1.5]])
                bad = {"armed": True}
                inner_f = problem.h_f

                def f_raising(v):
                    if bad["armed"] and v == [0.5, 0.0]:
                        raise ZeroDivisionError("division by zero in the objective")
                    return inner_f(v)
                problem.h_f = f_raising
                try:
                    SweepAlgorithm(problem, generator=gen).run()
                except ZeroDivisionError:
                    pass
                bad["armed"] = False
                gen2 = CustomGenerator(problem.parameters)
                gen2.init([[0.1, 0.1], [0.9, -0.9]])
                SweepAlgorithm(problem, generator=gen2).run()
            elif name == "H11":
                # a stored design is moved by the user and submitted again (state reset): until the new evaluation has been
                # synchronised the store keeps the last consistent record of it
                from artap.algorithm import DummyAlgorithm
                batch = [Individual([0.25, -1.0]), Individual([0.5, 0.0]), Individual([0.75, 1.5])]
                for ind in batch:
                    problem.individuals.append(ind)
                alg = DummyAlgorithm(problem)
                alg.evaluate(batch)
                moved = batch[1]
                moved.vector = [0.4, 0.6]
                moved.state = Individual.State.EMPTY
                alg.evaluate([moved])
                problem.data_store.sync_all()
            elif name in ("H7", "H7r", "H7p"):
                # a store with more than a thousand individuals: all synchronised by one sync_all, then every design gets
                # several kilobytes of post-processing data and everything is synchronised again in ONE transaction that is
                # larger than SQLite's page cache (pages reach the file before the commit; only the journal can undo them)
                for k in range(1100 if name == "H7" else 500):
                    v = [k / 1100.0, -2.0 + 4.0 * ((k * 7) % 1100) / 1100.0]
                    ind = Individual(v)
                    ind.costs = f(v)
                    ind.costs_signed = expected_signed(ind.costs) + [True]
                    ind.state = Individual.State.EVALUATED
                    problem.individuals.append(ind)
                    ind.custom["squares"] = [x * x for x in v]
                problem.data_store.sync_all()
                for j, ind in enumerate(problem.individuals):
                    ind.population_id = 3
                    ind.custom["field"] = [round(0.001 * j + 0.5 * i, 6) for i in range(400 if name == "H7" else 900)]
                problem.data_store.sync_all()
            elif name == "H8":
                # two studies on one store in one process: an NSGA-II run, then a sweep (different individual classes)
                from artap.algorithm_NSGAII import NSGAII
                sh = shim_mod.install()
                sh.reset(4321 + seed, None)
                alg = NSGAII(problem)
                alg.options['max_population_number'] = 2
                alg.options['max_population_size'] = 2
                alg.options['verbose_level'] = 0
                alg.run()
                from artap.algorithm_sweep import SweepAlgorithm
                from artap.operators import CustomGenerator
                gen = CustomGenerator(problem.parameters)
                gen.init([[0.25, -1.0], [0.5, 0.0], [0.75, 1.5]])
                SweepAlgorithm(problem, generator=gen).run()
            elif name == "H6":
                # designs whose rows refer to other individuals by id (finite-difference children of the gradient
                # evaluator, written after their parent): a crash leaves references to rows that were never written
                from artap.algorithm import Algorithm, EvaluatorType
                alg = Algorithm(problem, evaluator_type=EvaluatorType.GRADIENT)
                batch = [Individual([0.25, -1.0]), Individual([0.75, 1.5])]
                for ind in batch:
                    problem.individuals.append(ind)
                alg.evaluate(batch)
                for ind in batch:
                    for child in ind.children:
                        if child not in problem.individuals:
                            problem.individuals.append(child)
                problem.data_store.sync_all()
            elif name in ("H1", "H4", "H5", "H9", "H9d"):
                if name == "H4":
                    sh = shim_mod.install()
                    sh.reset(77 + seed, None)
                from artap.algorithm_sweep import SweepAlgorithm
                from artap.operators import CustomGenerator
                gen = CustomGenerator(problem.parameters)
                gen.init([[0.25, -1.0], [0.5, 0.0], [0.75, 1.5]])
                SweepAlgorithm(problem, generator=gen).run()
            else:
                from artap.algorithm_NSGAII import NSGAII
                sh = shim_mod.install()
                sh.reset(1234 + seed, None)
                alg = NSGAII(problem)
                alg.options['max_population_number'] = 2
                alg.options['max_population_size'] = 2
                alg.options['verbose_level'] = 0
                alg.run()
    else:  # H3: parallel sweep under the scheduler; events of all workers are crash points
        from artap.algorithm_sweep import SweepAlgorithm
        from artap.operators import CustomGenerator
        with scheduled(ctx, fine=False, db=True, on_point=on_point) as h:
            holder["sched_holder"] = h
            attach(SqliteDataStore(problem, database_name=db))
            if hasattr(on_point, "mark"):
                on_point.mark("created")
            gen = CustomGenerator(problem.parameters)
            gen.init([[0.25, -1.0], [0.75, 1.5]])
            alg = SweepAlgorithm(problem, generator=gen)
            alg.options['max_processes'] = 2
            problem._verif_schedulers = h
            alg.run()
    return problem


RECOVERIES = ("view", "view-days-later", "resumed")


def inspect(db, ack_path, created, desc, variants=("view",)):
    """What the survivor does with the files the dead process left (each on its own copy of those files):
    view            - open a read-mode view at once;
    view-days-later - the same, but two days later by the clock (file times set back);
    resumed         - the run is resumed first (the store is opened again in write mode, which loads it), then the view."""
    import shutil
    import time
    out, cls = [], None
    side = [ext for ext in ("", "-journal", "-wal", "-shm") if os.path.exists(db + ext)]
    for variant in variants:
        if variant == "view" and len(variants) == 1:
            v, c = inspect_one(db, ack_path, created, desc)
        else:
            work = db + "." + variant.replace("-", "")
            for ext in ("", "-journal", "-wal", "-shm"):
                if os.path.exists(work + ext):
                    os.remove(work + ext)
            for ext in side:
                shutil.copy2(db + ext, work + ext)
            if variant == "view-days-later":
                old = time.time() - 2 * 86400
                for ext in side:
                    os.utime(work + ext, (old, old))
            elif variant == "resumed" and os.path.exists(work) and os.path.getsize(work) > 0:
                from artap.datastore import SqliteDataStore
                from ..core.common import muted
                from .c_support import make_problem
                try:
                    with muted():
                        st = SqliteDataStore(make_problem(n_params=2, bounds=[[0.0, 1.0], [-2.0, 2.0]], criteria=["minimize", "maximize"], f=f), database_name=work)
                        st.destroy()
                        del st
                except Exception:
                    pass          # whatever the resumed run does, the files are judged by the view below
            v, c = inspect_one(work, ack_path, created, desc + " [recovery: %s]" % variant)
            v = [(k + ":" + variant if variant != "view" else k, m) for k, m in v]
            for ext in ("", "-journal", "-wal", "-shm"):
                if os.path.exists(work + ext):
                    os.remove(work + ext)
        out += v
        cls = cls or c
    return out, cls


def inspect_one(db, ack_path, created, desc):
    """The recovery oracle, run by the surviving parent."""
    from artap.problem import ProblemViewDataStore
    import atexit
    out = []
    acks = []
    objs = {}
    if os.path.exists(ack_path):
        objs = {}          # token -> {"id":, "acked": last acknowledged vector or None, "begun": vectors whose synchronisation had begun}
        for ln in open(ack_path).read().splitlines():
            parts = ln.split(" ", 3)
            if parts[0] == "C":
                created = True
            elif parts[0] in ("A", "B") and len(parts) == 4:
                try:
                    tok, iid, (vec, has_custom) = int(parts[1]), int(parts[2]), json.loads(parts[3])
                except (ValueError, TypeError):
                    continue                       # a line cut short by the kill
                o = objs.setdefault(tok, {"id": iid, "acked": None, "begun": [], "custom": False})
                o["id"] = iid
                if parts[0] == "A":
                    o["acked"] = vec
                    o["custom"] = has_custom
                    acks.append(iid)
                else:
                    o["begun"].append(vec)
    if not os.path.exists(db):
        if created or acks:
            out.append(("C11:file-missing", desc))
        return out, "pre_creation"
    view_ok = True
    view_ids = None
    try:
        view = ProblemViewDataStore(database_name=db)
        view_ids = set(i.id for i in view.individuals)
        atexit.unregister(view.cleanup)
        try:
            os.rmdir(view.working_dir)
        except OSError:
            pass
        try:
            view.data_store.destroy()
        except Exception:
            pass
    except Exception as e:
        view_ok = False
        if created or acks:
            out.append(("C11:view-unreadable:%s" % type(e).__name__, "ProblemViewDataStore raised %r; %s" % (e, desc)))
        else:
            return out, "pre_creation"
    con = sqlite3.connect(db)
    try:
        try:
            ic = con.execute("PRAGMA integrity_check").fetchall()
        except sqlite3.DatabaseError as e:
            ic = [("error: %r" % (e,),)]
        if ic != [("ok",)]:
            out.append(("C11:integrity-check", "integrity_check says %r; %s" % (ic[:3], desc)))
        try:
            rows = con.execute("SELECT id, individual FROM individuals").fetchall()
        except sqlite3.DatabaseError as e:
            rows = []
            if created or acks:
                out.append(("C11:individuals-unreadable", "%r; %s" % (e, desc)))
    finally:
        con.close()
    ids = [r[0] for r in rows]
    if view_ids is not None:
        for a in sorted(set(acks)):
            if a in ids and a not in view_ids:
                out.append(("C11:acknowledged-individual-not-in-the-view", "the row of id %d exists but the read-mode view does not hand the individual out (view ids %r); %s" % (a, sorted(view_ids)[:12], desc)))
                break
    for a in set(acks):
        if a not in ids:
            out.append(("C11:acknowledged-row-missing", "synchronisation of id %d had returned but the row is absent (rows %r); %s" % (a, sorted(ids), desc)))
            break
    if len(ids) != len(set(ids)):
        out.append(("C11:duplicate-rows", "ids %r; %s" % (ids, desc)))
    # individual by individual (not id by id): the row of an acknowledged individual holds THAT individual -- its last
    # acknowledged design, or one whose synchronisation had begun afterwards
    byid, custom_of = {}, {}
    for rid, js in rows:
        try:
            byid[rid] = json.loads(js)["vector"]
            custom_of[rid] = (json.loads(js).get("custom") or {}).get("squares")
        except Exception:
            pass
    for tok, o in sorted(objs.items()):
        if o["acked"] is None or o["id"] not in byid:
            continue
        if byid[o["id"]] != o["acked"] and byid[o["id"]] not in o["begun"]:
            out.append(("C11:acknowledged-individual-replaced-by-another", "an individual with id %d and design %r had been synchronised; the row with that id holds the design %r; %s" % (
                o["id"], o["acked"], byid[o["id"]], desc)))
            break
        if o["custom"] and byid[o["id"]] == o["acked"] and custom_of.get(o["id"]) != [float(x) * float(x) for x in o["acked"]]:
            out.append(("C11:acknowledged-custom-data-lost", "an individual (id %d, design %r) had been synchronised together with the data its objective attached; the row now carries %r; %s" % (
                o["id"], o["acked"], custom_of.get(o["id"]), desc)))
            break
    for rid, js in rows:
        try:
            d = json.loads(js)
            vec, costs, signed = d["vector"], d["costs"], d["costs_signed"]
        except Exception:
            out.append(("C11:torn-row:unparsable", "row %r = %r; %s" % (rid, js[:60], desc)))
            continue
        if costs == []:
            if str(d.get("state", "")).lower().endswith("evaluated"):
                out.append(("C11:torn-row:marked-evaluated-without-costs", "row %r (vector %r) is in state %r with costs []; %s" % (rid, vec, d.get("state"), desc)))
            if signed != []:
                out.append(("C11:torn-row:signed-without-costs", "row %r; %s" % (rid, desc)))
            continue
        exp = f(vec)
        sq = (d.get("custom") or {}).get("squares")
        if costs == exp and sq is not None and sq != [float(x) * float(x) for x in vec]:
            out.append(("C11:torn-row:custom-data-missing-or-of-another-vector", "row %r vector %r carries custom data %r; %s" % (rid, vec, d.get("custom"), desc)))
        if costs != exp:
            out.append(("C11:torn-row:costs-do-not-match-vector", "row %r vector %r costs %r, f(vector) = %r; %s" % (rid, vec, costs, exp, desc)))
        elif [float(x) for x in signed[:-1]] != expected_signed(costs) or len(signed) != 3:
            out.append(("C11:torn-row:signed-costs", "row %r signed %r for costs %r; %s" % (rid, signed, costs, desc)))
    return out, ("judged" if (created or acks or view_ok) else "pre_creation")


def paths(tag):
    d = tempfile.gettempdir()
    db = os.path.join(d, "c11-%s-%d.sqlite" % (tag, os.getpid()))
    ack = db + ".ack"
    for p in (db, db + "-journal", ack):
        if os.path.exists(p):
            os.remove(p)
    return db, ack


_STALE = {}


def stale_leftovers():
    """The files an EARLIER run left under some name when it was killed inside a large transaction (database file with pages of
    the unfinished transaction plus its hot rollback journal). Produced once per process by really killing such a run."""
    if "dir" not in _STALE:
        import shutil
        d = tempfile.mkdtemp(prefix="c11-stale-")
        db = os.path.join(d, "old.sqlite")

        def child():
            fd = os.open(db + ".ack", os.O_WRONLY | os.O_CREAT | os.O_APPEND, 0o600)
            seen = {"n": 0}

            def on_point(label):
                if label == "db:execute-insert:after":
                    seen["n"] += 1
                    if seen["n"] == 500 + 430:          # well inside the second, cache-spilling transaction
                        os._exit(137)
            run_history("H7p", db, fd, on_point, Ctx([]), 0)        # default write mode, 500 individuals
        code = crash.fork_run(child)
        if code != 137:
            raise HarnessError("could not produce the leftovers of a killed run (status %r)" % (code,))
        _STALE["dir"], _STALE["db"] = d, db
    return _STALE["db"]


def place_leftovers(name, db):
    """H9 / H9d: the new run uses a file name under which an earlier, killed run left its files."""
    import shutil
    if name not in ("H9", "H9d"):
        return
    old = stale_leftovers()
    if os.path.exists(old + "-journal"):         # (a tree that keeps no journal file leaves none behind)
        shutil.copy2(old + "-journal", db + "-journal")
    if name == "H9":
        shutil.copy2(old, db)            # rewrite mode will remove the database file itself; H9d: the user deleted it by hand


def event_level(name, col, choices=None, seed=0, part=None):
    """All crash indices of one history (and, for H3, one schedule)."""
    import artap.algorithm_sweep, artap.algorithm_NSGAII  # noqa: F401,E401
    # crash-free run in a child to count events and find the creation mark
    db, ack = paths(name)
    place_leftovers(name, db)
    info_path = db + ".info"

    def free_child():
        fd = os.open(ack, os.O_WRONLY | os.O_CREAT | os.O_APPEND, 0o600)
        ec = crash.EventCounter(None, record=True)
        err = None
        try:
            run_history(name, db, fd, ec, Ctx(choices or []), seed)
        except HarnessError:
            raise
        except Exception as e:          # artap itself fails on what it finds (a store it cannot use): reported, not a harness error
            err = "%s: %s" % (type(e).__name__, e)
        with open(info_path, "w") as fh:
            json.dump({"n": ec.n, "created": ec.marks.get("created", 0), "labels": ec.labels, "error": err}, fh)
    code = crash.fork_run(free_child)
    if code != 0 or not os.path.exists(info_path):
        raise HarnessError("crash-free run of %s failed with status %r" % (name, code))
    info = json.load(open(info_path))
    os.remove(info_path)
    if info.get("error"):
        col.case()
        col.violation("C11:run-fails:%s" % info["error"].split(":")[0], "event", "%s without any crash: the run itself fails with %s after %d events" % (name, info["error"], info["n"]),
                      {"history": name, "k": None, "choices": choices, "seed": seed})
        return info["n"]
    variants = RECOVERIES if name in ("H1", "H4", "H7", "H7r", "H10", "H11") else ("view",)
    viol, cls = inspect(db, ack, True, "%s crash-free run" % name, variants)
    for key, msg in viol:
        col.violation(key, "event", msg, {"history": name, "k": None, "choices": choices, "seed": seed})
    col.case()
    total, created = info["n"], info["created"]
    for k in range(1, total + 1):
        if name in ("H7", "H7r") and info["labels"][k - 1].startswith("db:execute-insert") and k % 97 != 0 and k < total - 6:
            continue       # H7: every event that is not one of the 2 x 1100 x 2 upsert events, and every 97th of those
        if part is not None and k % part[1] != part[0]:
            continue
        db, ack = paths(name)
        place_leftovers(name, db)

        def child(k=k):
            fd = os.open(ack, os.O_WRONLY | os.O_CREAT | os.O_APPEND, 0o600)
            try:
                run_history(name, db, fd, crash.EventCounter(k), Ctx(choices or []), seed)
            except HarnessError:
                raise
            except Exception:
                os._exit(98)            # the run fails by itself before the crash point is reached
        code = crash.fork_run(child)
        if code == 98:
            col.case()
            col.violation("C11:run-fails-before-crash-point", "event", "%s: the run fails by itself before event %d" % (name, k), {"history": name, "k": k, "choices": choices, "seed": seed})
            break
        if code != 137:
            raise HarnessError("%s crash index %d: child ended with status %r instead of dying at the event" % (name, k, code))
        desc = "%s killed at event %d/%d (%s)%s" % (name, k, total, info["labels"][k - 1], " schedule %r" % (choices,) if choices else "")
        viol, cls = inspect(db, ack, k > created, desc, variants)
        col.case()
        col.count("crash_points")
        col.count("class_" + cls)
        if k > created:
            col.nontrivial((name, tuple(choices or ()), k))
        for key, msg in viol:
            col.violation(key, "event", msg, {"history": name, "k": k, "choices": choices, "seed": seed})
    for p in (db, db + "-journal", ack):
        if os.path.exists(p):
            os.remove(p)
    return total


def replay_event(name, k, choices, seed):
    db, ack = paths(name + "r")

    def child():
        fd = os.open(ack, os.O_WRONLY | os.O_CREAT | os.O_APPEND, 0o600)
        run_history(name, db, fd, crash.EventCounter(k), Ctx(choices or []), seed)
    crash.fork_run(child)
    return inspect(db, ack, True, "%s killed at event %r schedule %r" % (name, k, choices))[0]


def syscall_level(name, points, col, seed=0):
    for sc, k, total in points:
        db, ack = paths("%s-sys" % name)
        rc, _ = crash.strace_writer([name, str(seed), db], when=k, syscall=sc)
        desc = "%s SIGKILL before %s call %d/%d" % (name, sc, k, total)
        if rc != -9:
            raise HarnessError("%s: writer was not killed (rc=%r)" % (desc, rc))
        viol, cls = inspect(db, ack, False, desc)
        col.case()
        col.count("syscall_crash_points")
        col.count("class_" + cls)
        col.nontrivial((name, "sys", sc, k))
        for key, msg in viol:
            col.violation(key, "syscall", msg, {"history": name, "syscall": sc, "k": k, "seed": seed})
        for p in (db, db + "-journal", ack):
            if os.path.exists(p):
                os.remove(p)


def _shard(shard, col: Collector):
    kind = shard[0]
    if kind == "event":
        _, name, seed = shard[:3]
        total = event_level(name, col, None, seed, shard[3] if len(shard) > 3 else None)
        col.sample({"history": name, "level": "event", "crash_points": total}, 2)
    elif kind == "h3":
        _, choices, seed = shard
        total = event_level("H3", col, list(choices), seed)
        col.count("h3_schedules")
        col.sample({"history": "H3", "schedule": list(choices), "crash_points": total}, 1)
    elif kind == "sys":
        _, name, points, seed = shard
        syscall_level(name, points, col, seed)
        col.sample({"history": name, "level": "syscall", "crash_points_in_shard": [list(p) for p in points[:3]] + ["..."]}, 1)


def overlapping_first_in_first_out(trace):
    """True if, in this schedule, the objective call that began first also ends first while the other one is still running
    (needs two pre-emptions: into the second worker after the first has entered its objective, and back again)."""
    ev = [(t, lab) for t, lab in trace if lab in ("obj:enter", "obj:exit")]
    return len(ev) >= 3 and ev[0][1] == "obj:enter" and ev[1][1] == "obj:enter" and ev[1][0] != ev[0][0] and ev[2] == (ev[0][0], "obj:exit")


def h3_schedules(bound, only=None):
    """Enumerate the schedules (choice sequences) of H3 within the pre-emption bound, in a child-free dry run.
    only: a predicate over the (thread, label) trace of the schedule."""
    from ..core.common import Collector as C
    seqs = []

    def body(ctx):
        db, ack = paths("H3dry")
        fd = os.open(ack, os.O_WRONLY | os.O_CREAT | os.O_APPEND, 0o600)
        trace = []
        try:
            pr = run_history("H3", db, fd, lambda label: None, ctx, 0)
            for sch in getattr(pr, "_verif_schedulers", {}).get("all", []):
                trace += list(sch.trace)          # (worker, label of the point the worker is resumed from)
        finally:
            os.close(fd)
        if only is None or only(trace):
            seqs.append(list(ctx.choices))
        ctx.digest = tuple(ctx.choices)
        return []
    explore(body, C(), bound=bound, check_determinism=False)
    # keep minimal prefixes (trailing zeros are defaults)
    out = []
    for s in seqs:
        while s and s[-1] == 0:
            s.pop()
        if s not in out:
            out.append(s)
    return out


def replay(sub, case):
    if sub == "event":
        return replay_event(case["history"], case["k"], case.get("choices"), case.get("seed", 0))
    if sub == "syscall":
        db, ack = paths("%s-sysr" % case["history"])
        crash.strace_writer([case["history"], str(case.get("seed", 0)), db], when=case["k"], syscall=case["syscall"])
        return inspect(db, ack, False, "%s SIGKILL before %s call %d" % (case["history"], case["syscall"], case["k"]))[0]
    raise ValueError(sub)


def run(tier, seed):
    import artap.algorithm_sweep, artap.algorithm_NSGAII, artap.datastore  # noqa: F401,E401
    shards = [("event", "H1", seed), ("event", "H2", seed), ("event", "H4", seed), ("event", "H5", seed), ("event", "H6", seed), ("event", "H8", seed), ("event", "H10", seed), ("event", "H11", seed), ("event", "H9", seed), ("event", "H9d", seed)] + [("event", "H7", seed, (i, 6)) for i in range(6)] + [("event", "H7r", seed, (i, 3)) for i in range(3)]
    scheds = h3_schedules(2 if tier == "thorough" else 1)
    if tier != "thorough":
        # the two-pre-emption schedules in which the objective call that began first also ends first while the other one is
        # still running (what shared per-Job scratch state needs in order to show in the file); thorough has all of bound 2
        more = [s for s in h3_schedules(2, overlapping_first_in_first_out) if s not in scheds]
        scheds = scheds + more
    shards += [("h3", tuple(s), seed) for s in scheds]
    extra = {"h3_schedules": len(scheds)}
    if True:
        if crash.strace_available():
            for name in (("H1", "H2", "H4", "H5") if tier == "thorough" else ("H1",)):
                db, ack = paths("%s-count" % name)
                rc, counts = crash.strace_writer([name, str(seed), db], when=None)
                if rc != 0 or not counts:
                    raise HarnessError("traced crash-free run of %s failed (rc=%r, syscalls=%r)" % (name, rc, counts))
                extra["syscalls_" + name] = counts
                pts = [(sc, k, n) for sc, n in sorted(counts.items()) for k in range(1, n + 1)]
                nsh = 32
                for i in range(nsh):
                    if pts[i::nsh]:
                        shards.append(("sys", name, tuple(pts[i::nsh]), seed))
        else:
            extra["syscall_level"] = "strace not available: syscall-level enumeration skipped"
    col = run_shards(_shard, shards)
    extra["exhaustive"] = True
    return col, extra
RULE += (' Quick adds to the <=1 pre-emption schedules of the 2-worker sweep the two-pre-emption schedules whose objective calls overlap first-in-first-out; a row marked evaluated with empty costs counts as partially written.')
