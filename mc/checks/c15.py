"""C15 -- single-objective benchmarks: total on their box, optimum where and as documented (lattice only)."""
import itertools
import math
import numbers

from ..core.common import Collector, run_shards
from ..core import shim as shim_mod

PROPERTY = "C15"
LEVEL = "exploration"
RULE = ("every BenchmarkFunction with a scalar documented optimum x every listed dimension x box lattice (L levels per axis incl. "
        "both bounds: 41/21/9/5/5/3 for d=1/2/3/4/5/10, 3 for d=6..8; for every other d up to 100 (quick: all d<=32, every even d and a few odd ones) only corners and centre) plus the documented optimum, optimum +- h*e_i (h = 1e-3, 1e-2 of the width, "
        "clipped), and the optimum scaled / shifted along the diagonal by 1e-5..1e-2, coordinates as Python floats and (d<=2 and the optimum neighbourhood) numpy float64; four points in a row on one problem object for lists / numpy scalars / numpy arrays (no aliasing, no vector modification, repeatable); XinSheYang3 with every "
        "combination of its uniform draws in {0, .5, 1-2^-53} for d<=3. Non-trivial = a point other than the documented optimum; "
        "distinct = distinct (function, dimension, point, dtype).")
ASSUMPTIONS = ["lattice only: sound (a reported point is a real counterexample), complete only for the lattice points",
               "tolerance 1e-3 absolute as stated by the property"]

DIM_FUNCS = ["Rosenbrock", "Ackley", "Sphere", "Schwefel", "ModifiedEasom", "EqualityConstr", "Griewank", "Perm", "Rastrigin",
             "Zakharov", "XinSheYang", "XinSheYang2", "XinSheYang3", "AlpineFunction"]
FIXED_FUNCS = ["SixHump", "Schubert", "Booth", "GramacyLee"]
ROBUST_FUNCS = ["Synthetic1D", "Synthetic2D", "Synthetic5D", "Synthetic10D"]
LEVELS = {1: 41, 2: 21, 3: 9, 4: 5, 5: 5, 6: 3, 7: 3, 8: 3, 10: 3}
BIG_DIMS = (127, 128, 129, 255, 256, 257, 513, 1000)
HIGH_DIMS = tuple(d for d in range(9, 101) if d != 10) + BIG_DIMS   # only the documented optimum, its neighbourhood, the two corners and the centre
TOL = 1e-3

_cache = {}


def get_problem(name, dim):
    from .c_support import quiet_problem
    key = (name, dim)
    if key not in _cache:
        import artap.benchmark_functions as bf
        import artap.benchmark_robust as br
        shim_mod.install()
        cls = getattr(bf, name, None) or getattr(br, name)
        _cache[key] = quiet_problem(cls, dimension=dim) if dim is not None else quiet_problem(cls)
    return _cache[key]


class _ForcedUnit:
    def __init__(self, vals):
        self.vals = list(vals)

    def force_unit(self, b):
        return self.vals.pop(0) if self.vals else b

    def choose(self, kind, n, price=1, label=None):
        return 0


def evaluate(p, x, as_numpy, draws=None):
    from artap.individual import Individual
    if as_numpy:
        import numpy as np
        x = [np.float64(v) for v in x]
    else:
        x = [float(v) for v in x]
    sh = shim_mod.SHIM
    sh.reset(12345, _ForcedUnit(draws) if draws is not None else None)
    try:
        return p.evaluate(Individual(list(x)))
    finally:
        sh.ctx = None


def sign_of(p):
    c = p.costs[0].get('criteria', 'minimize')
    return 1.0 if c == 'minimize' else -1.0


def check_point(name, dim, x, as_numpy, is_optimum=False, draws=None):
    out = []
    p = get_problem(name, dim)
    d = len(p.parameters)
    tag = "%s:d=%s" % (name, d)
    try:
        res = evaluate(p, x, as_numpy, draws)
    except Exception as e:
        return [("C15:%s:exception:%s:%s" % (name, type(e).__name__, "numpy" if as_numpy else "float"),
                 "%s(dimension=%r).evaluate(%r, numpy=%r) raised %r" % (name, dim, x, as_numpy, e))]
    desc = "%s(dimension=%r) at %r (numpy=%r, draws=%r) -> %r" % (name, dim, x, as_numpy, draws, res)
    try:
        ok = len(res) == 1
    except TypeError:
        ok = False
    if not ok:
        return [("C15:%s:not-one-cost" % name, desc)]
    v = res[0]
    if isinstance(v, complex) or not isinstance(v, numbers.Real) and not hasattr(v, "__float__"):
        return [("C15:%s:not-real" % name, desc)]
    try:
        fv = float(v)
    except Exception:
        return [("C15:%s:not-real" % name, desc)]
    if not math.isfinite(fv):
        return [("C15:%s:not-finite" % name, desc)]
    fstar = float(p.global_optimum)
    s = sign_of(p)
    if is_optimum and abs(fv - fstar) > TOL:
        out.append(("C15:%s:value-at-optimum:%s" % (name, "d=%d" % d),
                    "documented optimum %r, value at the documented coordinates %r; %s" % (fstar, fv, desc)))
    if s * fv < s * fstar - TOL:
        out.append(("C15:%s:better-than-optimum:%s" % (name, "d=%d" % d),
                    "a box point beats the documented optimum %r (%s): %s" % (fstar, p.costs[0].get('criteria'), desc)))
    return out


def check_sequence(name, dim, kind):
    """Several box points in a row on ONE problem object: returned lists must not alias or change later, evaluating must not
    modify the vector, a second evaluation of the same individual must give the same value."""
    import numpy as np
    from artap.individual import Individual
    p = get_problem(name, dim)
    d = len(p.parameters)
    pts = []
    span = 1.0 if d <= 30 else 0.02       # high dimensions: stay near the centre (see the note on corners below)
    for j in range(4):
        pts.append(tuple((par['bounds'][0] + par['bounds'][1]) / 2.0 + span * (par['bounds'][1] - par['bounds'][0]) * ((((3 * i + 5 * j) % 7) / 6.0) - 0.5)
                         for i, par in enumerate(p.parameters)))
    out = []
    kept = []
    sh = shim_mod.SHIM
    scribble = not kind.endswith("-keep")     # "-keep": the caller only keeps the returned lists (as Job.evaluate does)
    kind = kind.replace("-keep", "")
    for x in pts:
        vec = np.array(x, dtype=float) if kind == "ndarray" else ([np.float64(v) for v in x] if kind == "npfloat" else [float(v) for v in x])
        ind = Individual(vec)
        try:
            sh.reset(1, _ForcedUnit([0.5] * 64))
            r1 = p.evaluate(ind)
            snap = [float(v) for v in r1]
            after = [float(v) for v in ind.vector]
            sh.reset(1, _ForcedUnit([0.5] * 64))
            try:
                if scribble:
                    r1.append(99.0)          # the caller extends / overwrites the list it was given (WorstCaseEvaluator does)
                    r1[0] = -77.0
            except Exception:
                pass
            r2 = [float(v) for v in p.evaluate(Individual(list(vec) if not hasattr(vec, "copy") else vec.copy()))]
        except Exception as e:
            return [("C15:%s:sequence:exception:%s:%s" % (name, type(e).__name__, kind), "%s(dimension=%r) at %r (%s) raised %r" % (name, dim, x, kind, e))]
        finally:
            sh.ctx = None
        if after != [float(v) for v in x]:
            out.append(("C15:%s:evaluate-modifies-the-vector" % name, "%s(dimension=%r): vector %r became %r (%s)" % (name, dim, x, after, kind)))
        if r2 != snap:
            out.append(("C15:%s:second-evaluation-differs" % name, "%s(dimension=%r) at %r: %r then %r (%s)" % (name, dim, x, snap, r2, kind)))
        kept.append((x, r1, ([-77.0] + snap[1:] + [99.0]) if (isinstance(r1, list) and scribble) else snap))
    for x, obj, snap in kept:
        if [float(v) for v in obj] != snap:
            out.append(("C15:%s:earlier-result-overwritten" % name, "%s(dimension=%r): result for %r was %r, reads %r after later evaluations" % (
                name, dim, x, snap, [float(v) for v in obj])))
            break
    return out


def lattice(p):
    d = len(p.parameters)
    L = LEVELS.get(d, 3)
    axes = []
    for par in p.parameters:
        lb, ub = par['bounds']
        axes.append([lb + (ub - lb) * i / (L - 1) for i in range(L - 1)] + [ub])
    return axes


def optimum_points(p):
    pts = []
    co = getattr(p, "global_optimum_coords", None)
    if co is None:
        return pts
    co = [float(c) for c in co]
    pts.append((tuple(co), True))
    axes_idx = range(len(co)) if len(co) <= 100 else sorted(set([0, 1, len(co) // 2, len(co) - 2, len(co) - 1, 31, 32, 63, 64, 127, 128, 255, 256]) & set(range(len(co))))
    for i in axes_idx:                 # beyond 100 dimensions: the axes at the ends, the middle and around powers of two
        par = p.parameters[i]
        lb, ub = par['bounds']
        for h in (1e-3, 1e-2):
            for sgn in (1, -1):
                q = list(co)
                q[i] = min(ub, max(lb, q[i] + sgn * h * (ub - lb)))
                pts.append((tuple(q), False))
    # radial neighbourhood: the optimum scaled about the origin and shifted along the diagonal, by small relative steps
    for sc in (1e-5, 1e-4, 2e-4, 5e-4, 1e-3, 2e-3, 5e-3, 1e-2):
        for sgn in (1, -1):
            q = [min(par['bounds'][1], max(par['bounds'][0], c * (1 + sgn * sc))) for c, par in zip(co, p.parameters)]
            pts.append((tuple(q), False))
            q = [min(par['bounds'][1], max(par['bounds'][0], c + sgn * sc * (par['bounds'][1] - par['bounds'][0]))) for c, par in zip(co, p.parameters)]
            pts.append((tuple(q), False))
    return pts


def _shard(shard, col: Collector):
    name, dim, first_idx = shard
    try:
        p = get_problem(name, dim)
    except Exception as e:
        col.case()
        col.violation("C15:%s:constructor:%s" % (name, type(e).__name__), "point",
                      "%s(dimension=%r) cannot be constructed: %r" % (name, dim, e), {"name": name, "dim": dim, "x": [], "numpy": False})
        return
    d = len(p.parameters)
    axes = lattice(p)
    draws_list = [None]
    if name == "XinSheYang3":
        draws_list = list(itertools.product((0.0, 0.5, 1.0 - 2.0 ** -53), repeat=d)) if d <= 3 else [None, (0.0,) * d, (1.0 - 2.0 ** -53,) * d]
    firsts = axes[0] if first_idx is None else [axes[0][first_idx]]
    if d in HIGH_DIMS:
        firsts = []
        # corners only up to d = 30: beyond that the true value of some functions at a corner (Perm: d**(2d)) exceeds the
        # float range, which is a property of the mathematics, not of the code
        corner_pts = [tuple(par['bounds'][0] for par in p.parameters), tuple(par['bounds'][1] for par in p.parameters)] if d <= 30 else []
        for x in corner_pts + [tuple((par['bounds'][0] + par['bounds'][1]) / 2.0 for par in p.parameters)]:
            for as_numpy in (False, True):
                col.case()
                col.nontrivial((name, dim, x, as_numpy))
                for key, msg in check_point(name, dim, x, as_numpy, False, None):
                    col.violation(key, "point", msg, {"name": name, "dim": dim, "x": x, "numpy": as_numpy, "draws": None})
    for x0 in firsts:
        for rest in itertools.product(*axes[1:]):
            x = (x0,) + tuple(rest)
            for draws in draws_list:
                for as_numpy in ((False, True) if d <= 2 else (False,)):
                    col.case()
                    col.nontrivial((name, dim, x, as_numpy, draws))
                    for key, msg in check_point(name, dim, x, as_numpy, False, draws):
                        col.violation(key, "point", msg, {"name": name, "dim": dim, "x": x, "numpy": as_numpy, "draws": draws})
    if first_idx in (None, 0):
        for kind in ("float", "npfloat", "ndarray", "float-keep", "ndarray-keep"):
            col.case()
            col.nontrivial((name, dim, "seq", kind))
            for key, msg in check_sequence(name, dim, kind):
                col.violation(key, "seq", msg, {"name": name, "dim": dim, "kind": kind})
        for x, is_opt in optimum_points(p):
            for draws in draws_list:
                for as_numpy in (False, True):
                    col.case()
                    if not is_opt:
                        col.nontrivial((name, dim, x, as_numpy, draws))
                    for key, msg in check_point(name, dim, x, as_numpy, is_opt, draws):
                        col.violation(key, "point", msg, {"name": name, "dim": dim, "x": x, "numpy": as_numpy,
                                                          "is_optimum": is_opt, "draws": draws})
        col.sample({"function": name, "dimension": dim, "levels_per_axis": LEVELS.get(d, 3),
                    "documented_optimum": float(p.global_optimum),
                    "coords": [float(c) for c in getattr(p, "global_optimum_coords", [])] or None}, 6)


def replay(sub, case):
    if sub == "seq":
        return check_sequence(case["name"], case["dim"], case["kind"])
    return check_point(case["name"], case["dim"], tuple(case["x"]), case.get("numpy", False),
                       case.get("is_optimum", False), case.get("draws"))


def run(tier, seed):
    shards = []
    for name in DIM_FUNCS:
        for dim in (5, 6, 7, 8):
            shards.append((name, dim, None))
        for dim in HIGH_DIMS:
            if name == "Perm" and dim > 100:
                continue        # the coefficients (j+1)**i alone exceed the float range: the function value is not representable
            if tier == "thorough" or dim <= 32 or dim % 2 == 0 or dim in (57, 59, 63, 65, 81, 99) or dim in BIG_DIMS:
                shards.append((name, dim, None))
        for dim in (1, 2, 3, 4, 10):
            if dim == 10:
                for i in range(3):
                    shards.append((name, dim, i))
            else:
                shards.append((name, dim, None))
    for dim in (2, 5, 10):
        if dim == 10:
            for i in range(3):
                shards.append(("Michaelwicz", dim, i))
        else:
            shards.append(("Michaelwicz", dim, None))
    # Michaelwicz refuses every other dimension; whatever dimension it accepts is in scope
    for dim in (1, 3, 4, 6, 7, 8, 9, 11, 12, 20):
        try:
            get_problem("Michaelwicz", dim)
        except Exception:
            continue
        shards.append(("Michaelwicz", dim, None))
    for name in FIXED_FUNCS + ROBUST_FUNCS:
        if name == "Synthetic10D":
            for i in range(3):
                shards.append((name, None, i))
        else:
            shards.append((name, None, None))
    shards.sort(key=lambda s: 0 if (s[1] == 10 or s[0] == "Synthetic10D") else 1)
    col = run_shards(_shard, shards)
    return col, {"exhaustive": True, "scope": "lattice only", "levels_per_axis": {str(k): v for k, v in LEVELS.items()},
                 "functions": DIM_FUNCS + ["Michaelwicz"] + FIXED_FUNCS + ROBUST_FUNCS}


RULE += (' Michaelwicz in every dimension of {1,3,4,6,7,8,9,11,12,20} that its constructor accepts; evaluation sequences also with a caller that only keeps the returned lists.')

RULE += (' Beyond small: dimensions 127..129, 255..257, 513, 1000 (optimum, neighbourhood along the axes at the ends, the middle and the powers of two, centre); Perm only up to 100 (its coefficients alone exceed the float range beyond).')
