"""C04 -- the archive holds exactly the non-dominated set of everything ever offered.

Explicit-state search to a FIXED POINT over ordered archive contents (all histories of any length over the alphabet),
lockstep reference nd(offered); plus all short histories from scratch (differential: same set reached by another
route) and every truncate of every reachable state.
"""
import itertools
import math
from collections import deque

from ..core.common import Collector, run_shards
from ..core.refmodels import ref_dominance, nondominated

PROPERTY = "C04"
LEVEL = "model_checking"
RULE = ("BFS over canonical states = ordered tuple of members' signed costs; transitions = add(x) for every symbol x of the "
        "alphabet (V3^2 x {F,T}: 18 symbols; {0,1}^3 x {T}: 8 symbols; thorough adds {0..3}^2, {0,1}^3 x {F,T}, V3^3) on a real Archive rebuilt from the state, for the Pareto "
        "comparator and two epsilon comparators, until no new state appears. Oracle on every transition: content == nd(state "
        "+ x), flag == inserted, one representative per cost vector, evicted/rejected dominated-or-equal. Two independent archives fed alternately (no shared state); offered individuals are not modified. Then every history "
        "of length <=3/4 from an empty archive, and truncate over all feature assignments and sizes on every reachable state. Life cycle of ONE live archive: every sequence of 4 (3) operations from "
        "{add x (9 symbols, entry points add/append/+= in rotation), extend / += a pair (4 pairs), a pair of individuals at one design point with different costs (3), truncate to 0/1/2, remove first/last/absent member} "
        "against a plain-list reference after every step.")
ASSUMPTIONS = ["archive behaviour depends on members only through their signed costs and order (Archive has no other state)",
               "markers as artap writes them; epsilons positive; alphabet differences exceed rounding error"]

V3 = (0.0, 1.0, 2.0)
ALPHA = {
    "V3x2F": [(a, b, f) for a in V3 for b in V3 for f in (False, True)],
    "B3": [(a, b, c, True) for a in (0.0, 1.0) for b in (0.0, 1.0) for c in (0.0, 1.0)],
    # costs differing by 1e-10, 1e-11 and one ulp: mutually non-dominated near-ties are distinct members, near-dominated ones are evicted
    "NEAR": [(a, b, True) for a in (1.0, 1.0 + 1e-11, 1.0 - 1e-10) for b in (2.0, 2.0 + 4.440892098500626e-16, 2.0 - 1e-11)],
    # thorough only
    "V4x2": [(a, b, True) for a in (0.0, 1.0, 2.0, 3.0) for b in (0.0, 1.0, 2.0, 3.0)],
    "B3F": [(a, b, c, f) for a in (0.0, 1.0) for b in (0.0, 1.0) for c in (0.0, 1.0) for f in (False, True)],
    "T3": [(a, b, c, True) for a in V3 for b in V3 for c in V3],
}
QUICK_ALPHA = ("V3x2F", "B3", "NEAR")
STATE_CAP = 400000
COMPARATORS = {"pareto": None, "eps01": [0.1, 0.1], "eps05": 0.5}


def make_archive(cname):
    from artap.archive import Archive
    from artap.operators import ParetoDominance, EpsilonDominance
    if cname == "default":
        return Archive()             # the default comparator object is shared by all default archives of the process
    eps = COMPARATORS[cname]
    return Archive(dominance=ParetoDominance() if eps is None else EpsilonDominance(eps))


def ind(costs):
    from artap.individual import Individual
    i = Individual([0.0])
    i.costs_signed = list(costs)
    return i


def rebuild(cname, state):
    ar = make_archive(cname)
    for c in state:
        ar.add(ind(c))
    return ar


def content(ar):
    return tuple(tuple(m.costs_signed) for m in ar)


def check_add(cname, state, x):
    """One transition from `state` (ordered member tuple) by add(x). Returns (violations, new_state)."""
    out = []
    try:
        ar = rebuild(cname, state)
    except Exception as e:
        return [("C04:add:exception:%s" % type(e).__name__, "%s archive: re-adding %r raised %r" % (cname, state, e))], None
    if content(ar) != tuple(state):
        out.append(("C04:rebuild:%s" % cname, "re-adding the members %r of an archive gives %r" % (state, content(ar))))
        return out, None
    new = ind(x)
    try:
        flag = ar.add(new)
    except Exception as e:
        return [("C04:add:exception:%s" % type(e).__name__, "%s archive %r add(%r) raised %r" % (cname, state, x, e))], None
    after = content(ar)
    exp = nondominated(list(state) + [x])
    desc = "%s archive %r add(%r) -> %r flag=%r" % (cname, state, x, after, flag)
    inserted = any(m is new for m in ar)
    if set(after) != exp:
        kind = "kept-dominated" if set(after) - exp else "lost-nondominated"
        out.append(("C04:add:content:%s:%s" % (cname, kind), desc + " expected set %r" % (sorted(exp),)))
    if len(set(after)) != len(after):
        out.append(("C04:add:duplicate-member:%s" % cname, desc))
    if bool(flag) != inserted:
        out.append(("C04:add:flag:%s:%s" % (cname, "true-on-reject" if flag else "false-on-insert"), desc))
    exp_insert = tuple(x) in exp and tuple(x) not in set(state)
    if inserted != exp_insert:
        out.append(("C04:add:insertion:%s" % cname, desc + " expected inserted=%r" % exp_insert))
    for gone in set(state) - set(after):
        if not any(ref_dominance(m, gone) == 1 or m == gone for m in after):
            out.append(("C04:add:evicted-not-dominated:%s" % cname, desc))
    if not inserted and not any(ref_dominance(m, tuple(x)) == 1 or m == tuple(x) for m in after):
        out.append(("C04:add:rejected-not-dominated:%s" % cname, desc))
    return out, after


def check_history(cname, seq):
    out = []
    ar = make_archive(cname)
    flags = []
    try:
        for x in seq:
            flags.append(ar.add(ind(x)))
    except Exception as e:
        return [("C04:add:exception:%s" % type(e).__name__, "%s archive: history %r raised %r" % (cname, seq, e))]
    got = set(content(ar))
    exp = nondominated(seq)
    if got != exp or len(content(ar)) != len(got):
        out.append(("C04:history:content:%s" % cname, "%s archive after %r holds %r, expected %r" % (cname, seq, content(ar), sorted(exp))))
    return out


def check_two_archives(cname1, cname2, seq1, seq2):
    """Two independent archives fed alternately: each must hold nd of what IT was offered; offered individuals are not modified."""
    out = []
    a1, a2 = make_archive(cname1), make_archive(cname2)
    off1, off2 = [], []
    try:
        for k in range(max(len(seq1), len(seq2))):
            for ar, seq, off in ((a1, seq1, off1), (a2, seq2, off2)):
                if k < len(seq):
                    x = ind(seq[k])
                    before = list(x.costs_signed)
                    ar.add(x)
                    off.append(x)
                    if list(x.costs_signed) != before:
                        out.append(("C04:add:modifies-the-offered-individual", "add changed costs_signed %r -> %r" % (before, x.costs_signed)))
    except Exception as e:
        return [("C04:add:exception:%s" % type(e).__name__, "two archives %s/%s on %r / %r raised %r" % (cname1, cname2, seq1, seq2, e))]
    for ar, seq, name in ((a1, seq1, cname1), (a2, seq2, cname2)):
        got = content(ar)
        if set(got) != nondominated(seq) or len(set(got)) != len(got):
            out.append(("C04:two-archives:content:%s" % name,
                        "archives %s/%s fed alternately with %r / %r: the %s archive holds %r, expected %r" % (
                            cname1, cname2, seq1, seq2, name, got, sorted(nondominated(seq)))))
    return out


def check_truncate(cname, state, feats, size, larger=True):
    out = []
    try:
        ar = rebuild(cname, state)
    except Exception as e:
        return [("C04:add:exception:%s" % type(e).__name__, "%s archive: re-adding %r raised %r" % (cname, state, e))]
    members = list(ar)
    for m, f in zip(members, feats):
        m.features['crowding_distance'] = f
    try:
        if larger:
            ar.truncate(size, 'crowding_distance')
        else:
            ar.truncate(size, 'crowding_distance', larger_preferred=False)
    except Exception as e:
        return [("C04:truncate:exception:%s" % type(e).__name__, "truncate(%d) of %r feats %r raised %r" % (size, state, feats, e))]
    kept = list(ar)
    desc = "%s archive %r features %r truncate(%d, larger=%r) kept features %r" % (
        cname, state, feats, size, larger, [m.features['crowding_distance'] for m in kept])
    if len(kept) != min(size, len(members)) or len(ar) != len(kept):
        out.append(("C04:truncate:size", desc))
    if any(not any(k is m for m in members) for k in kept) or len(set(map(id, kept))) != len(kept):
        out.append(("C04:truncate:foreign-or-repeated", desc))
        return out
    dropped = [m for m in members if not any(m is k for k in kept)]
    if kept and dropped:
        kf = [k.features['crowding_distance'] for k in kept]
        df = [d.features['crowding_distance'] for d in dropped]
        if (larger and max(df) > min(kf)) or (not larger and min(df) < max(kf)):
            out.append(("C04:truncate:order:%s" % ("larger" if larger else "smaller"), desc))
    return out


LIFE_SYMS = [(a, b, True) for a in V3 for b in V3]
LIFE_OPS = ([("add", x) for x in LIFE_SYMS] +
            [("many", pair) for pair in (((0.0, 2.0, True), (2.0, 0.0, True)), ((1.0, 1.0, True), (0.0, 0.0, True)), ((2.0, 2.0, True), (2.0, 2.0, True)),
                                         ((1.0, 2.0, True), (1.0, 0.0, True)))] +
            [("samevec", pair) for pair in (((0.0, 2.0, True), (2.0, 0.0, True)), ((2.0, 2.0, True), (1.0, 1.0, True)), ((1.0, 1.0, True), (2.0, 2.0, True)))] +
            [("truncate", k) for k in (0, 1, 2)] + [("remove", "first"), ("remove", "last"), ("remove", "absent")])


def check_lifecycle(cname, ops):
    """One live archive through its whole life cycle as the swarm algorithms use it: additions through every entry point
    (add / append / extend / +=), truncation, removal. Transition-local oracle against a plain list."""
    from artap.individual import Individual
    ar = make_archive(cname)
    ref = []               # the members, by identity, in order
    out = []
    serial = [0]

    def mk(costs, vec=None):
        serial[0] += 1
        i = Individual([float(serial[0])] if vec is None else list(vec))    # distinct designs unless stated otherwise
        i.costs_signed = list(costs)
        i.features['crowding_distance'] = float(serial[0] % 7) + 0.01 * serial[0]
        return i

    def ref_add(x):
        cx = tuple(x.costs_signed)
        if any(ref_dominance(tuple(m.costs_signed), cx) == 1 or tuple(m.costs_signed) == cx for m in ref):
            return False
        ref[:] = [m for m in ref if ref_dominance(cx, tuple(m.costs_signed)) != 1]
        ref.append(x)
        return True
    for step, (op, arg) in enumerate(ops):
        desc = "%s archive, operations %r, step %d" % (cname, ops[:step + 1], step)
        try:
            if op == "add":
                x = mk(arg)
                how = (step + LIFE_SYMS.index(arg)) % 3
                if how == 0:
                    flag = ar.add(x)
                elif how == 1:
                    ar.append(x)
                    flag = None
                else:
                    ar += x
                    flag = None
                exp = ref_add(x)
                if flag is not None and bool(flag) != exp:
                    out.append(("C04:life:add-flag:%s" % ("rejected-although-not-dominated" if exp else "accepted-although-dominated"),
                                "add returned %r, reference %r; %s" % (flag, exp, desc)))
            elif op in ("many", "samevec"):
                xs = [mk(c, [0.5, 0.5] if op == "samevec" else None) for c in arg]   # samevec: one design point, different costs
                if step % 2 == 0:
                    ar += xs
                else:
                    ar.extend(xs)
                for x in xs:
                    ref_add(x)
            elif op == "truncate":
                ar.truncate(arg, 'crowding_distance')
                ref[:] = sorted(ref, key=lambda m: -m.features['crowding_distance'])[:arg]
            else:
                if arg == "absent" or not ref:
                    ok = ar.remove(mk((9.0, 9.0, True)))
                    if ok:
                        out.append(("C04:life:remove-absent", "remove of a design that is not a member returned True; " + desc))
                else:
                    m = ref[0] if arg == "first" else ref[-1]
                    ok = ar.remove(m)
                    ref.remove(m)
                    if not ok:
                        out.append(("C04:life:remove-member", "remove of a member returned False; " + desc))
        except Exception as e:
            out.append(("C04:life:exception:%s" % type(e).__name__, "raised %r; %s" % (e, desc)))
            return out
        got = list(ar)
        if sorted(map(id, got)) != sorted(map(id, ref)) or len(ar) != len(ref):
            gc, rc = [tuple(m.costs_signed) for m in got], [tuple(m.costs_signed) for m in ref]
            kind = "lost-or-refused-a-nondominated-solution" if len(got) < len(ref) else ("kept-a-dominated-or-removed-solution" if len(got) > len(ref) else "wrong-members")
            out.append(("C04:life:content:%s:after-%s" % (kind, op), "archive holds %r, reference %r; %s" % (gc, rc, desc)))
            return out
    return out


def check_evaluated_designs(cname, n, failing, constrained):
    """Designs that went through the framework's own evaluation (Job), some of them after a transient failure, then offered
    to an archive. The expected content is derived from the objective values and the constraint values themselves."""
    from artap.algorithm import DummyAlgorithm
    from artap.individual import Individual
    from ..core import shim as shim_mod
    from .c_support import make_problem, reset_ids
    reset_ids()
    calls = {"n": -1}

    def before(problem, individual):
        calls["n"] += 1
        if calls["n"] in failing:
            raise (TimeoutError if calls["n"] % 2 else RuntimeError)("transient")

    def f(v):
        return [v[0], 1.0 - v[0] + v[1]]          # v[1] = 0: all designs on one trade-off line

    g = (lambda v: [v[0] - 0.55]) if constrained else None        # designs right of 0.55 violate
    problem = make_problem(n_params=2, bounds=[[0.0, 1.0], [0.0, 0.0]], criteria=["minimize", "minimize"], f=f, g=g, before=before)
    sh = shim_mod.install()
    sh.reset(7, None)
    batch = [Individual([(k + 0.5) / n, 0.0]) for k in range(n)]
    desc = "%s archive fed with %d evaluated designs (transient failures at calls %r, constrained=%r)" % (cname, n, sorted(failing), constrained)
    try:
        DummyAlgorithm(problem).evaluate(batch)
    except Exception as e:
        return [("C04:evaluated:exception:%s" % type(e).__name__, "%s: evaluate raised %r" % (desc, e))]
    finally:
        sh.ctx = None
    ar = make_archive(cname)
    flags = [bool(ar.add(i)) for i in batch]
    # reference from first principles: feasible designs (g < 0, or no constraints) beat infeasible ones, then Pareto on costs
    def key(i):
        feas = (not constrained) or (i.vector[0] - 0.55 < 0)
        return tuple(float(c) for c in i.costs) + ((not feas),)
    exp = nondominated([key(i) for i in batch])
    got = set(key(m) for m in ar)
    out = []
    if got != exp:
        out.append(("C04:evaluated:content:%s" % ("lost-nondominated" if exp - got else "kept-dominated"),
                    "%s: archive holds %d designs, the non-dominated set of what was offered has %d; flags %r; markers in costs_signed %r" % (
                        desc, len(got), len(exp), flags, sorted(set(i.costs_signed[-1] for i in batch), key=repr))))
    return out


def big_sequences(n):
    front = [(float(i), float(n - i), True) for i in range(n)]
    return {
        "ascending": front + [(float(i) + 0.5, float(n - i) + 0.5, True) for i in range(0, n, 3)] + front[::5],
        "descending": front[::-1] + [(float(i), float(n - i), False) for i in range(0, n, 4)],
        "interleaved": [front[(i * 7) % n] for i in range(n)] + [(float(n // 2) - 0.5, float(n - n // 2) - 0.5, True)] + front[:n // 2],
        "worst-first": [(float(i) + 1.0, float(n - i) + 1.0, True) for i in range(n)] + front,
    }


def bfs(cname, aname, col):
    alpha = ALPHA[aname]
    seen = {()}
    frontier = deque([()])
    transitions = 0
    depth = {(): 0}
    while frontier:
        st = frontier.popleft()
        for x in alpha:
            transitions += 1
            viol, new = check_add(cname, st, x)
            for key, msg in viol:
                col.violation(key, "add", msg, {"comparator": cname, "state": st, "x": x})
            if viol:
                continue        # do not explore beyond a violating transition (a broken archive may grow without bound)
            if new is not None and new not in seen:
                seen.add(new)
                depth[new] = depth[st] + 1
                frontier.append(new)
        if col.full or len(seen) > STATE_CAP:
            if len(seen) > STATE_CAP:
                col.count("caps_hit")
                col.notes.append("state cap %d hit for %s/%s: fixed point NOT reached" % (STATE_CAP, cname, aname))
            break
    return seen, transitions, max(depth.values())


def _shard(shard, col: Collector):
    kind = shard[0]
    if kind == "bfs":
        _, cname, aname, tier = shard
        seen, transitions, maxdepth = bfs(cname, aname, col)
        col.count("states", len(seen))
        col.count("transitions", transitions)
        col.count("traces_validated_against_impl", transitions)
        col.maxi("max_depth", maxdepth)
        col.case(transitions)
        for st in seen:
            col.nontrivial(("st", cname, aname, st))
        col.sample({"kind": "bfs-state", "comparator": cname, "alphabet": aname,
                    "state": max(seen, key=len), "fixed_point_reached": not col.full}, 2)
        # truncate on every reachable state with <= 4 members
        pool = (0.0, 1.0, 1.0, math.inf)
        for st in seen:
            n = len(st)
            if n == 0 or n > 4:
                continue
            for feats in set(itertools.permutations(pool, n)):
                for size in range(0, n + 2):
                    for larger in (True, False):
                        col.case()
                        col.count("truncate_cases")
                        for key, msg in check_truncate(cname, st, feats, size, larger):
                            col.violation(key, "truncate", msg, {"comparator": cname, "state": st, "feats": feats,
                                                                 "size": size, "larger": larger})
    elif kind == "life":
        _, cname, first, depth = shard
        for rest in itertools.product(range(len(LIFE_OPS)), repeat=depth - 1):
            ops = [LIFE_OPS[first]] + [LIFE_OPS[i] for i in rest]
            col.case()
            col.count("lifecycle_histories")
            col.nontrivial(("life", cname, first, rest))
            for key, msg in check_lifecycle(cname, ops):
                col.violation(key, "life", msg, {"comparator": cname, "ops": ops})
        col.sample({"kind": "life cycle of one archive", "comparator": cname, "operations": [list(map(str, LIFE_OPS[first])), "truncate 1", "add"], "depth": depth}, 1)
    elif kind == "evaluated":
        for cname in ("pareto",):        # re-sampled designs may fall within an epsilon box of another: only the exact comparator is judged
            for n in (3, 4, 6):
                for failing in ((), (0,), (1,), (1, 2), (0, 3), (2, 3, 4)):
                    for constrained in (False, True):
                        col.case()
                        col.nontrivial(("evaluated", cname, n, failing, constrained))
                        for key, msg in check_evaluated_designs(cname, n, set(failing), constrained):
                            col.violation(key, "evaluated", msg, {"comparator": cname, "n": n, "failing": failing, "constrained": constrained})
        col.sample({"kind": "designs evaluated by the framework (some after a transient failure) offered to an archive"}, 1)
    elif kind == "big":
        # archives far larger than the reachable states of the small alphabets: long fronts offered in three orders, with
        # dominated, duplicated and dominating points mixed in
        _, cname, n = shard
        seqs = big_sequences(n)
        for label, seq in seqs.items():
            col.case()
            col.count("large_archive_histories")
            col.nontrivial(("big", cname, n, label))
            for key, msg in check_history(cname, seq):
                col.violation(key + ":large-archive", "big", "n=%d order=%s: %s" % (n, label, msg[:300]), {"comparator": cname, "n": n, "order": label})
        col.sample({"kind": "large archives", "front_size": n, "orders": list(seqs)}, 1)
    elif kind == "default":
        # default archives in one process: histories over 2 objectives first, then over 3 (and, in another process, 3 then 1/2)
        order = shard[1]
        for aname in order:
            alpha = ALPHA[aname]
            for seq in itertools.product(alpha[::2] if len(alpha) > 10 else alpha, repeat=3):
                col.case()
                col.count("default_archive_histories")
                if len(set(seq)) > 1:
                    col.nontrivial(("default", aname, seq))
                for key, msg in check_history("default", list(seq)):
                    col.violation(key + ":after-other-objective-counts", "hist", msg, {"comparator": "default", "seq": seq})
        col.sample({"kind": "default archives, objective counts in the order", "alphabets": list(order)}, 1)
    elif kind == "two":
        _, c1, c2, aname, first = shard
        alpha = ALPHA[aname]
        for rest in itertools.product(alpha[::2], repeat=2):
            seq1 = [first] + list(rest)
            for seq2 in ([alpha[0], alpha[-1], alpha[1]], [alpha[-1], alpha[-2], alpha[0]], list(reversed(seq1))):
                col.case()
                col.count("two_archive_cases")
                col.nontrivial(("two", c1, c2, tuple(seq1), tuple(seq2)))
                for key, msg in check_two_archives(c1, c2, seq1, seq2):
                    col.violation(key, "two", msg, {"c1": c1, "c2": c2, "seq1": seq1, "seq2": seq2})
        col.sample({"kind": "two archives fed alternately", "comparators": [c1, c2], "seq1": [first, alpha[2], alpha[4]]}, 1)
    elif kind == "hist":
        _, cname, aname, n, first = shard
        alpha = ALPHA[aname]
        for rest in itertools.product(alpha, repeat=n - 1):
            seq = [first] + list(rest)
            col.case()
            col.count("histories")
            if len(set(seq)) > 1:
                col.nontrivial(("h", cname, tuple(seq)))
            for key, msg in check_history(cname, seq):
                col.violation(key, "hist", msg, {"comparator": cname, "seq": seq})
        col.sample({"kind": "history", "comparator": cname, "seq": [first] + [alpha[0]] * (n - 1)}, 1)


def replay(sub, case):
    t = lambda v: tuple(v)
    inf = lambda v: math.inf if v == "inf" else v
    if sub == "add":
        return check_add(case["comparator"], tuple(t(s) for s in case["state"]), t(case["x"]))[0]
    if sub == "two":
        return check_two_archives(case["c1"], case["c2"], [t(x) for x in case["seq1"]], [t(x) for x in case["seq2"]])
    if sub == "hist":
        return check_history(case["comparator"], [t(s) for s in case["seq"]])
    if sub == "evaluated":
        return check_evaluated_designs(case["comparator"], case["n"], set(case["failing"]), case["constrained"])
    if sub == "big":
        return check_history(case["comparator"], big_sequences(case["n"])[case["order"]])
    if sub == "life":
        ops = [(op, (tuple(tuple(c) for c in arg) if op in ("many", "samevec") else (tuple(arg) if op == "add" else arg))) for op, arg in case["ops"]]
        return check_lifecycle(case["comparator"], ops)
    if sub == "truncate":
        return check_truncate(case["comparator"], tuple(t(s) for s in case["state"]), [inf(f) for f in case["feats"]],
                              case["size"], case["larger"])
    raise ValueError(sub)


def run(tier, seed):
    shards = []
    for cname in COMPARATORS:
        for aname in (ALPHA if tier == "thorough" else QUICK_ALPHA):
            shards.append(("bfs", cname, aname, tier))
        n = 4 if tier == "thorough" else 3
        for aname in QUICK_ALPHA:
            for first in ALPHA[aname]:
                for k in range(2, n + 1):
                    shards.append(("hist", cname, aname, k, first))
    for cname in ("pareto", "eps01", "default"):
        for first in range(len(LIFE_OPS)):
            shards.append(("life", cname, first, 4 if (tier == "thorough" or cname == "pareto") else 3))
    for cname in ("pareto", "eps01", "default"):
        for n in (31, 32, 33, 63, 64, 65, 100, 128, 129, 256, 257) + ((1000,) if tier == "thorough" else ()):
            shards.append(("big", cname, n))
    shards.append(("evaluated",))
    shards += [("default", ("V3x2F", "B3")), ("default", ("B3", "V3x2F")), ("default", ("NEAR", "T3"))]
    for c1, c2 in (("pareto", "pareto"), ("pareto", "eps01"), ("eps01", "eps05"), ("eps05", "pareto")):
        for aname in ("V3x2F", "B3"):
            for first in ALPHA[aname][::3]:
                shards.append(("two", c1, c2, aname, first))
    col = run_shards(_shard, shards)
    extra = {"exhaustive": col.counters.get("caps_hit", 0) == 0, "fixed_point": not col.full and col.counters.get("caps_hit", 0) == 0,
             "states": col.counters.get("states", 0), "transitions": col.counters.get("transitions", 0),
             "traces_validated_against_impl": col.counters.get("traces_validated_against_impl", 0)}
    return col, extra

RULE += (' Beyond small: archives of 31..257 (thorough 1000) members offered in four orders with dominated, infeasible and repeated points; designs evaluated by the framework (some after transient failures, with and without constraints) offered to a Pareto archive, feasibility derived from the constraints.')
