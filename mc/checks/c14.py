"""C14 -- worst-case and gradient evaluators compute what they promise, stably over batches.

Every sequence of <=3 batches of <=2 fresh designs, n 1..3, m 1..2, tolerances, objective shapes, min/max; plus real
EpsMOEA / NSGA-II runs with the worst-case evaluator under the choice explorer.
"""
import itertools
from collections import Counter

from ..core.common import Collector, run_shards
from ..core.explorer import explore, run_once

PROPERTY = "C14"
LEVEL = "exploration"
RULE = ("every sequence of 1..3 batches x 1..2 fresh designs per batch, n in {1,2,3} parameters, m in {1,2} objectives, per-axis tolerances "
        "from {0.5,0.25,1e-3}, four objective shapes, min and max: after EVERY batch, for EVERY design evaluated so far: 2n neighbours at "
        "+-tol, m+1 costs, sensitivity = sum |f0(x)-f0(neighbour)|, each vector evaluated once overall, earlier designs untouched, also when single objective calls fail transiently (design or neighbour re-sampled); "
        "gradient evaluator: forward quotient with step 1e-4 (also at coordinates of magnitude 2e4..1e15 (beyond 2**39 the step 1e-4 is below one ulp of the coordinate) and with 4-6 parameters), n extra calls, work lists empty; runs: EpsMOEA/NSGA-II N in {2,3}, G in "
        "{2,3} with the worst-case evaluator, every random decision/pick flipped (<=1 deviation). Non-trivial = more than one batch or "
        "more than one design; distinct = distinct case tuples / choice sequences.")
ASSUMPTIONS = ["one evaluator instance per algorithm, as Algorithm.__init__ creates it",
               "sensitivity compared to 1e-12 relative; gradient compared exactly (same float operations)"]

TOLS = (0.5, 0.25, 1e-3)
SHAPES = ("sumsq", "linear", "abs", "const")


def objective(shape, m):
    def f(v):
        if shape == "sumsq":
            f0 = sum(x * x for x in v)
        elif shape == "linear":
            f0 = sum((i + 1) * x for i, x in enumerate(v))
        elif shape == "abs":
            f0 = abs(v[0]) - (v[1] ** 2 if len(v) > 1 else 0.0)
        else:
            f0 = 3.5
        out = [f0]
        if m == 2:
            out.append(sum(v) + 1.0)
        return out
    return f


def designs(n, count, offset):
    if offset >= 1e3:      # large-magnitude coordinates (frequencies, current densities, ...)
        return [[offset * (1.0 + 0.25 * k) + 7.0 * i for i in range(n)] for k in range(count)]
    return [[0.3 + 0.7 * k + 0.11 * i + offset for i in range(n)] for k in range(count)]


def digest_ind(ind):
    return (tuple(ind.vector), tuple(ind.costs), tuple(ind.costs_signed), ind.state,
            tuple(tuple(c.vector) for c in ind.children), tuple(tuple(c.costs) for c in ind.children))


def check_worst(n, m, tols, shape, crit, batches, fail_calls=()):
    """fail_calls: indices of objective calls that fail transiently (the design or neighbour is re-sampled and retried)."""
    from artap.algorithm import Algorithm, EvaluatorType
    from artap.individual import Individual
    from ..core import shim as shim_mod
    from .c_support import make_problem, reset_ids
    reset_ids()
    f = objective(shape, m)
    st = {"n": -1}

    def before(problem, individual):
        st["n"] += 1
        if st["n"] in fail_calls:
            raise TimeoutError("transient")
    problem = make_problem(n_params=n, bounds=[[-5.0, 5.0]] * n, criteria=[crit] * m, f=f,
                           param_extra=[{"tol": tols[i]} for i in range(n)], before=before if fail_calls else None)
    if fail_calls:
        sh = shim_mod.install()
        sh.reset(31, None)
    alg = Algorithm(problem, evaluator_type=EvaluatorType.WORST_CASE)
    done = []
    out = []
    desc = "worst-case n=%d m=%d tols=%r shape=%s crit=%s batches=%r failing-calls=%r" % (n, m, tols, shape, crit, batches, list(fail_calls))
    offset = 0.0
    for b, count in enumerate(batches):
        batch = [Individual(v) for v in designs(n, count, offset)]
        offset += 2.0
        before = [digest_ind(i) for i in done]
        try:
            alg.evaluate(batch)
        except Exception as e:
            return [("C14:worst:exception:%s" % type(e).__name__, "batch %d raised %r; %s" % (b, e, desc))]
        if [digest_ind(i) for i in done] != before:
            out.append(("C14:worst:earlier-design-changed", "a design of an earlier batch changed during batch %d; %s" % (b, desc)))
        done.extend(batch)
        for k, ind in enumerate(done):
            x = list(ind.vector)
            fx = f(x)
            exp_children = Counter()
            for i in range(n):
                for s in (-1, 1):
                    v = list(x)
                    v[i] += s * tols[i]
                    exp_children[tuple(v)] += 1
            got_children = Counter(tuple(c.vector) for c in ind.children)
            tag = "after-batch-%d" % min(b, 2)
            if len(ind.children) != 2 * n or got_children != exp_children:
                out.append(("C14:worst:neighbours", "design %d has %d neighbours %r, expected %r; %s" % (k, len(ind.children), sorted(got_children), sorted(exp_children), desc)))
                continue
            if len(ind.costs) != m + 1:
                out.append(("C14:worst:cost-length:%s" % ("later-batch" if b > 0 else "first-batch"),
                            "design %d (batch order %d) has %d costs %r, expected %d, after batch %d; %s" % (k, k, len(ind.costs), ind.costs, m + 1, b, desc)))
                continue
            if list(ind.costs[:m]) != fx:
                out.append(("C14:worst:user-costs", "design %d costs %r, objective gives %r; %s" % (k, ind.costs, fx, desc)))
            sens = sum(abs(fx[0] - f(list(c.vector))[0]) for c in ind.children)
            if abs(ind.costs[m] - sens) > 1e-12 * max(1.0, abs(sens)):
                out.append(("C14:worst:sensitivity", "design %d sensitivity %r, expected %r; %s" % (k, ind.costs[m], sens, desc)))
            if len(ind.costs_signed) != m + 2:
                out.append(("C14:worst:signed-length", "design %d signed costs %r; %s" % (k, ind.costs_signed, desc)))
        # call log: every design and every neighbour exactly once overall
        seen = Counter(v for _, v in problem.h_log)
        if fail_calls:
            for k in fail_calls:
                if k < len(problem.h_log):
                    seen[problem.h_log[k][1]] -= 1
            seen = +seen
        want = Counter()
        for ind in done:
            want[tuple(ind.vector)] += 1
            for c in ind.children:
                want[tuple(c.vector)] += 1
        if seen != want:
            more = sum((seen - want).values())
            less = sum((want - seen).values())
            out.append(("C14:worst:call-log:%s" % ("extra" if more else "missing"),
                        "after batch %d: %d surplus and %d missing objective calls; %s" % (b, more, less, desc)))
        if out:
            break
    return out


def check_gradient(n, shape, crit, batches, magnitude=0.0):
    from artap.algorithm import Algorithm, EvaluatorType
    from artap.individual import Individual
    from .c_support import make_problem, reset_ids
    reset_ids()
    f = objective(shape, 1)
    problem = make_problem(n_params=n, bounds=[[-5.0, 5.0]] * n if not magnitude else [[-max(1e8, 10 * abs(magnitude)), max(1e8, 10 * abs(magnitude))]] * n, criteria=[crit], f=f)
    alg = Algorithm(problem, evaluator_type=EvaluatorType.GRADIENT)
    out = []
    desc = "gradient n=%d shape=%s crit=%s batches=%r magnitude=%r" % (n, shape, crit, batches, magnitude)
    offset = magnitude
    total = 0
    for b, count in enumerate(batches):
        batch = [Individual(v) for v in designs(n, count, offset)]
        offset += 2.0
        calls0 = len(problem.h_log)
        try:
            alg.evaluate(batch)
        except Exception as e:
            return [("C14:gradient:exception:%s" % type(e).__name__, "batch %d raised %r; %s" % (b, e, desc))]
        calls = len(problem.h_log) - calls0
        if calls != (n + 1) * count:
            out.append(("C14:gradient:calls", "batch %d of %d designs used %d objective calls, expected %d; %s" % (b, count, calls, (n + 1) * count, desc)))
        for k, ind in enumerate(batch):
            x = list(ind.vector)
            g = ind.features.get('gradient')
            if g is None or len(g) != n:
                out.append(("C14:gradient:missing", "design %d gradient %r; %s" % (k, g, desc)))
                continue
            for i in range(n):
                v = list(x)
                v[i] += 1e-4
                exp = (f(v)[0] - f(x)[0]) / 1e-4
                if float(g[i]) != exp:
                    out.append(("C14:gradient:quotient", "design %d d/dx%d = %r, forward quotient %r; %s" % (k, i, float(g[i]), exp, desc)))
                    break
            if list(ind.costs) != f(x):
                out.append(("C14:gradient:costs", "design %d costs %r; %s" % (k, ind.costs, desc)))
        ev = alg.evaluator
        if ev.individuals or ev.to_evaluate:
            out.append(("C14:gradient:work-lists-not-cleared", "after batch %d: %d/%d entries left; %s" % (b, len(ev.individuals), len(ev.to_evaluate), desc)))
        if out:
            break
    return out


def check_gradient_descent(variant, crit, n, iters, start):
    """The gradient evaluator as the GradientDescent algorithm drives it: for every design the run recorded, the stored
    gradient is the forward quotient of the first objective, and the run used exactly (n+1) calls per design."""
    from artap.algorithm_gradient_descent import GradientDescent
    from artap.operators import CustomGenerator
    from ..core import shim as shim_mod
    from .c_support import make_problem, reset_ids
    reset_ids()
    f = objective("sumsq", 1)
    problem = make_problem(n_params=n, bounds=[[-50.0, 50.0]] * n, criteria=[crit], f=f)
    gen = CustomGenerator(problem.parameters)
    gen.init([list(start[:n])])
    sh = shim_mod.install()
    sh.reset(5, None)
    desc = "GradientDescent(%s) crit=%s n=%d iterations=%d start=%r" % (variant, crit, n, iters, start[:n])
    try:
        alg = GradientDescent(problem, generator=gen)
        alg.options['algorithm'] = variant
        alg.options['n_iterations'] = iters
        alg.options['step'] = 0.05
        alg.options['verbose_level'] = 0
        alg.run()
    except Exception as e:
        return [("C14:gradient-descent:exception:%s" % type(e).__name__, "%s raised %r" % (desc, e))]
    finally:
        sh.ctx = None
    out = []
    designs_seen = [i for i in problem.individuals if i.features.get('gradient') is not None and len(i.features.get('gradient')) == n]
    if len(designs_seen) < iters + 1:
        out.append(("C14:gradient-descent:designs", "%d designs carry a gradient, expected at least %d; %s" % (len(designs_seen), iters + 1, desc)))
    for k, ind in enumerate(designs_seen):
        x = list(ind.vector)          # same number types as the implementation sees (numpy scalars after the first step)
        g = ind.features['gradient']
        for i in range(n):
            v = list(x)
            v[i] += 1e-4
            exp = float((f(v)[0] - f(x)[0]) / 1e-4)
            if float(g[i]) != exp:
                out.append(("C14:gradient-descent:quotient:%s" % crit, "design %d at %r: stored d/dx%d = %r, forward quotient of the first objective %r; %s" % (k, x, i, float(g[i]), exp, desc)))
                return out
    if variant != "adaptive":       # the Armijo search evaluates trial points on top
        calls = len(problem.h_log)
        if calls != (n + 1) * len(designs_seen):
            out.append(("C14:gradient-descent:calls", "%d objective calls for %d designs, expected %d; %s" % (calls, len(designs_seen), (n + 1) * len(designs_seen), desc)))
    return out


def run_body_factory(name, N, G, seed):
    def body(ctx):
        from artap.algorithm import EvaluatorType
        from .c_support import run_algorithm, std_objective
        f = std_objective(1)
        prepare = None
        if name in ("OMOPSO", "SMPSO", "PSOGA"):
            # the swarm algorithms take the evaluator as an attribute (their next generations are deep copies of selected particles)
            def prepare(problem, alg):
                from artap.operators import WorstCaseEvaluator
                alg.evaluator = WorstCaseEvaluator(alg)
        problem, alg, exc = run_algorithm(name, ctx, seed, N, G, n_params=2, n_costs=1, evaluator=EvaluatorType.WORST_CASE,
                                          param_extra=[{"tol": 0.05}, {"tol": 0.01}], f=f, prepare=prepare,
                                          shim_cfg={"extreme_values": False})
        out = []
        desc = "%s N=%d G=%d with the worst-case evaluator" % (name, N, G)
        if exc is not None:
            return [("C14:run:%s:exception:%s" % (name, type(exc).__name__), "%s raised %r" % (desc, exc))]
        seen = set()
        for ind in problem.individuals:
            if id(ind) in seen:
                continue
            seen.add(id(ind))
            if len(ind.costs) == 0 and name in ("OMOPSO", "SMPSO", "PSOGA"):
                continue            # (swarm runs record neighbour designs and unevaluated copies as well)
            if len(ind.costs) >= 1 and ind.children and ind.costs[0] != f(list(ind.vector))[0]:
                out.append(("C14:run:%s:user-objective-overwritten" % name, "design %r of generation %r has costs %r, its objective value is %r; %s" % (
                    list(ind.vector), ind.population_id, ind.costs, f(list(ind.vector))[0], desc)))
                break
            if ind.children and len(ind.costs) != 2 or (not ind.children and name not in ("OMOPSO", "SMPSO", "PSOGA") and len(ind.costs) != 2):
                out.append(("C14:run:%s:cost-length" % name, "an individual of generation %r has costs %r; %s" % (ind.population_id, ind.costs, desc)))
                break
            if ind.children and len(ind.costs_signed) != 3 or (not ind.children and name not in ("OMOPSO", "SMPSO", "PSOGA") and len(ind.costs_signed) != 3):
                out.append(("C14:run:%s:signed-length" % name, "an individual has signed costs %r; %s" % (ind.costs_signed, desc)))
                break
            if ind.children:
                fx = f(list(ind.vector))[0]
                sens = sum(abs(fx - f(list(c.vector))[0]) for c in ind.children)
                if len(ind.children) != 4 or abs(ind.costs[1] - sens) > 1e-12 * max(1.0, sens):
                    out.append(("C14:run:%s:sensitivity" % name, "children %d, sensitivity %r expected %r; %s" % (len(ind.children), ind.costs[1], sens, desc)))
                    break
        ctx.digest = tuple(tuple(i.vector) for i in problem.individuals)
        return out
    return body


def _shard(shard, col: Collector):
    kind = shard[0]

    def rec(sub, case, viol, nontrivial=True):
        col.case()
        if nontrivial:
            col.nontrivial((sub, repr(case)))
        for key, msg in viol:
            col.violation(key, sub, msg, case)
    batch_seqs = [s for k in (1, 2, 3) for s in itertools.product((1, 2), repeat=k)]
    if kind == "worst":
        _, n, m = shard
        for tols in itertools.product(TOLS, repeat=n):
            for shape in SHAPES:
                if shape == "abs" and n < 2:
                    continue
                for crit in ("minimize", "maximize"):
                    for bs in batch_seqs:
                        rec("worst", {"n": n, "m": m, "tols": tols, "shape": shape, "crit": crit, "batches": bs},
                            check_worst(n, m, tols, shape, crit, bs), len(bs) > 1 or bs[0] > 1)
                    if tols == (TOLS[0],) * n and shape in ("sumsq", "linear"):
                        # a transient failure of the k-th objective call: a design itself (k=0), or one of its neighbours
                        # only calls that evaluate a design of the batch itself fail (a failing NEIGHBOUR is re-sampled at random by
                        # the retry mechanism of C06 and is then no longer x +- tol; C14 does not quantify over faults, so that
                        # corner is left to C06 and not judged here)
                        for bs, fcs in (((1,), ((0,), (0, 1))), ((2,), ((0,), (1,), (0, 1))), ((1, 2), ((0,), (0, 1)))):
                            for fc in fcs:
                                rec("worst", {"n": n, "m": m, "tols": tols, "shape": shape, "crit": crit, "batches": bs, "fail_calls": fc},
                                    check_worst(n, m, tols, shape, crit, bs, fc), True)
        if n == 3 and m == 1:
            for nn in (4, 5):
                for bs in ((3, 3), (1, 1, 1, 1), (2, 2, 2)):
                    rec("worst", {"n": nn, "m": 2, "tols": (0.25,) * nn, "shape": "linear", "crit": "minimize", "batches": bs},
                        check_worst(nn, 2, (0.25,) * nn, "linear", "minimize", bs), True)
        if n == 3 and m == 2:
            # batches whose designs and neighbours run into the thousands (population 100 with 20-40 parameters)
            for nn, bs in ((25, (100,)), (40, (51,)), (20, (100, 100)), (33, (65,)), (64, (33,)), (2, (1000,))):
                rec("worst", {"n": nn, "m": 1, "tols": (0.25,) * nn, "shape": "sumsq", "crit": "minimize", "batches": bs},
                    [(k, msg[:400]) for k, msg in check_worst(nn, 1, (0.25,) * nn, "sumsq", "minimize", bs)], True)
        col.sample({"kind": "worst-case", "n": n, "m": m, "tols": list(TOLS[:n]), "batches": [2, 1, 2]}, 1)
    elif kind == "grad":
        for n in (1, 2, 3):
            for shape in SHAPES:
                if shape == "abs" and n < 2:
                    continue
                for crit in ("minimize", "maximize"):
                    for bs in batch_seqs:
                        rec("grad", {"n": n, "shape": shape, "crit": crit, "batches": bs}, check_gradient(n, shape, crit, bs),
                            len(bs) > 1 or bs[0] > 1)
                    for mag in (2.0e4, 2.5e6, -3.0e5, 7.0e11, 3.0e12, -1.0e15, 2.0 ** 39, 2.0 ** 40 + 1.0):  # beyond 2**39 the step is below one ulp
                        rec("grad", {"n": n, "shape": shape, "crit": crit, "batches": (2,), "magnitude": mag},
                            check_gradient(n, shape, crit, (2,), mag), True)
        for n, bs in ((33, (3,)), (65, (2,)), (129, (1,)), (3, (100,)), (2, (513,)), (8, (33, 65))):       # many parameters, large batches
            rec("grad", {"n": n, "shape": "linear", "crit": "minimize", "batches": bs}, [(k, m[:400]) for k, m in check_gradient(n, "linear", "minimize", bs)], True)
        for n in (4, 5, 6):         # more parameters, more and larger batches
            for bs in ((3, 3), (1, 1, 1, 1), (4,)):
                rec("grad", {"n": n, "shape": "linear", "crit": "minimize", "batches": bs}, check_gradient(n, "linear", "minimize", bs), True)
        col.sample({"kind": "gradient", "n": 2, "shape": "sumsq", "batches": [1, 2]}, 1)
    elif kind == "gd":
        for variant in ("fixed", "adaptive", "adagrad", "rmsprop", "adam"):
            for crit in ("minimize", "maximize"):
                for n in (1, 2, 3):
                    for iters in (1, 3):
                        for start in ((0.8, -1.2, 2.0), (-3.0, 0.5, 0.25)):
                            rec("gd", {"variant": variant, "crit": crit, "n": n, "iters": iters, "start": start},
                                check_gradient_descent(variant, crit, n, iters, start), True)
        col.sample({"kind": "gradient evaluator driven by GradientDescent", "variants": ["fixed", "adaptive", "adagrad", "rmsprop", "adam"]}, 1)
    elif kind == "run":
        _, name, N, G, seed = shard
        body = run_body_factory(name, N, G, seed)

        def on_exec(ctx, out):
            col.nontrivial((name, N, G, seed, tuple(ctx.choices)))
        explore(body, col, bound=1, sub="run", on_exec=on_exec, case_extra={"name": name, "N": N, "G": G, "seed": seed})
        col.sample({"kind": "run", "algorithm": name, "N": N, "G": G, "deviation_bound": 1}, 1)


def replay(sub, case):
    if sub == "worst":
        return check_worst(case["n"], case["m"], tuple(case["tols"]), case["shape"], case["crit"], tuple(case["batches"]),
                           tuple(case.get("fail_calls", ())))
    if sub == "grad":
        return check_gradient(case["n"], case["shape"], case["crit"], tuple(case["batches"]), case.get("magnitude", 0.0))
    if sub == "gd":
        return check_gradient_descent(case["variant"], case["crit"], case["n"], case["iters"], tuple(case["start"]))
    if sub == "run":
        ctx, out = run_once(run_body_factory(case["name"], case["N"], case["G"], case["seed"]), case["choices"])
        return out
    raise ValueError(sub)


def run(tier, seed):
    import artap.algorithm_NSGAII, artap.algorithm_genetic  # noqa: F401,E401
    shards = [("worst", n, m) for n in (1, 2, 3) for m in (1, 2)] + [("grad",), ("gd",)]
    for name in ("EpsMOEA", "NSGAII", "OMOPSO", "SMPSO"):
        for N in (2, 3):
            for G in (2, 3):
                shards.append(("run", name, N, G, seed))
    col = run_shards(_shard, shards)
    return col, {"exhaustive": True}


RULE += (' The gradient evaluator as the GradientDescent algorithm drives it: five step rules x min/max x n in {1,2,3} x 1 and 3 iterations x two starts.')

RULE += (' Beyond small: worst-case batches of 25x100, 40x51, 20x(100,100), 33x65, 64x33, 2x1000 (parameters x designs); gradients with 33, 65, 129 parameters and batches of 100 and 513.')
