"""C08 -- variation, sampling and search never leave the declared parameter box.

Operators: exhaustive over lattice parents (bounds, coincident, 1-ulp apart) x every combination of owned draws
(decisions both ways, value draws on an extreme-value list) x boxes x indices. Generators: all DoE generators over the
box list. Runs: the five population algorithms with every draw allowed to deviate (decisions flipped, values pushed to
0 / 1-2^-53), deviation-bounded, checking every vector that reaches the objective.
"""
import itertools
import math
import numbers

from ..core.common import Collector, run_shards
from ..core.explorer import explore_part, run_once
from ..core import shim as shim_mod
from .c13 import BOXES, pname

PROPERTY = "C08"
LEVEL = "exploration"
RULE = ("operators: SBX / polynomial / uniform / non-uniform mutation in dimension 1 over 9 lattice parent values per coordinate (bounds, "
        "+-1 ulp, quarter points, midpoint, midpoint+2^-52|mid|, midpoint+1e-14 w) x every combination of draws (decision draws low/high, "
        "value draws in {0, 5e-324, .25, .5, .75, 1-2^-53}) x 7 boxes x distribution indices {0,1,15,20,100} x probabilities {.5,1} (thorough also 0) x "
        "iterations {0,1,max/2,max}; dimension 2 (thorough 3) on a reduced parent lattice; generators: all DoE/random generators over the "
        "boxes with/without precision; runs: NSGA-II, EpsMOEA, OMOPSO, SMPSO, PSOGA, N in {2,3,4}, G in {1,2,3}, 1-2 parameters, 3 box sets, "
        "<=1 (thorough 2) deviations among all decision/pick/value draws; NSGA-II additionally started from designs on the bounds with every objective call allowed to fail transiently. Non-trivial = a case in which at least one draw mutates or crosses; "
        "distinct = distinct case tuples / choice sequences.")
ASSUMPTIONS = ["parents inside the box (as the statement requires); box widths up to 2e12",
               "tolerance for generated designs: 1e-12 relative to max(1,|lb|,|ub|) or half the declared precision; operator outputs: exact"]

DRAWS = (0.0, 5e-324, 0.25, 0.5, 0.75, 1.0 - 2.0 ** -53)
LOW, HIGH = 2.0 ** -53, 1.0 - 2.0 ** -53


def lattice(lb, ub, reduced=False):
    w = ub - lb
    mid = lb + w / 2.0
    if reduced:
        vals = [lb, math.nextafter(lb, math.inf), mid, math.nextafter(ub, -math.inf), ub]
    else:
        vals = [lb, math.nextafter(lb, math.inf), lb + 0.25 * w, mid, mid + 2.0 ** -52 * abs(mid), mid + 1e-14 * w,
                ub - 0.25 * w, math.nextafter(ub, -math.inf), ub]
    return [min(ub, max(lb, v)) for v in vals]


class _Forced:
    def __init__(self, vals):
        self.vals = list(vals)
        self.used = 0

    def force_unit(self, b):
        if self.used < len(self.vals):
            v = self.vals[self.used]
            self.used += 1
            return v
        self.used += 1
        return b

    def choose(self, kind, n, price=1, label=None):
        return 0


def with_draws(draws, fn):
    sh = shim_mod.install()
    ctx = _Forced(draws)
    sh.reset(7, ctx)
    try:
        return fn(), ctx.used
    finally:
        sh.ctx = None


def real_in(v, lb, ub):
    if isinstance(v, bool) or isinstance(v, complex) or not isinstance(v, numbers.Real):
        try:
            import numpy as np
            if not isinstance(v, (np.floating, np.integer)):
                return False
        except Exception:
            return False
    try:
        fv = float(v)
    except Exception:
        return False
    return (not math.isnan(fv)) and lb <= fv <= ub


def params_for(boxes):
    return [{"name": "x%d" % i, "bounds": list(b)} for i, b in enumerate(boxes)]


def check_operator(op, boxes, parents, cfg, draws):
    """op in sbx|pm|uniform|nonuniform. parents: (p1, p2) vectors for sbx, (p,) otherwise."""
    from artap import operators as ops
    ps = params_for(boxes)
    desc = "%s boxes=%r parents=%r cfg=%r draws=%r" % (op, boxes, parents, cfg, draws)
    try:
        if op == "sbx":
            o = ops.SimulatedBinaryCrossover(ps, cfg["prob"], cfg["eta"])
            res, used = with_draws(draws, lambda: o.cross(list(parents[0]), list(parents[1])))
            children = list(res)
        else:
            if op == "pm":
                o = ops.PmMutator(ps, cfg["prob"], cfg["eta"])
                res, used = with_draws(draws, lambda: o.mutate(list(parents[0])))
            elif op == "uniform":
                o = ops.UniformMutator(ps, cfg["prob"], cfg["pert"])
                res, used = with_draws(draws, lambda: o.mutate(list(parents[0])))
            else:
                o = ops.NonUniformMutation(ps, cfg["prob"], cfg["max_it"], cfg["pert"])
                res, used = with_draws(draws, lambda: o.mutate(list(parents[0]), cfg["it"]))
            children = [res]
    except Exception as e:
        return [("C08:%s:exception:%s" % (op, type(e).__name__), "%s raised %r" % (desc, e))], 0
    out = []
    for ch in children:
        if len(ch) != len(boxes):
            out.append(("C08:%s:dimension" % op, "child %r; %s" % (ch, desc)))
            continue
        for v, (lb, ub) in zip(ch, boxes):
            if not real_in(v, lb, ub):
                side = "type" if not isinstance(v, (int, float)) and not hasattr(v, "__float__") or isinstance(v, complex) else \
                    ("below" if float(v) < lb else "above" if float(v) > ub else "nan")
                out.append(("C08:%s:out-of-box:%s" % (op, side), "child component %r outside %r; %s" % (v, (lb, ub), desc)))
                break
    return out, used


def operator_cases(op, dim, tier):
    """Yield (boxes, parents, cfg, draws)."""
    etas = (0, 1, 15, 20, 100)
    probs = (0.0, 0.5, 1.0) if tier == "thorough" else (0.5, 1.0)      # probability 0 never varies anything
    # the last box has a width that overflows to infinity (ub - lb = inf): still a finite, legal box
    boxes_list = (tuple(BOXES) + ([-1e308, 1e308], [-1.7e308, 1.0])) if dim == 1 else (BOXES if tier == "thorough" else BOXES[:1] + BOXES[2:3] + BOXES[5:6])
    for box in boxes_list:
        boxes = [box] * dim
        lat = lattice(box[0], box[1], reduced=dim > 1)
        vecs = list(itertools.product(lat, repeat=dim))
        if op == "sbx":
            for eta in (etas if dim == 1 else (0, 20)):
                for prob in (probs if dim == 1 else (1.0,)):
                    for p1 in vecs:
                        for p2 in vecs:
                            if dim == 1:
                                for d in itertools.product((LOW, HIGH), (LOW, HIGH), DRAWS, (LOW, HIGH)):
                                    yield boxes, (p1, p2), {"prob": prob, "eta": eta}, d
                            else:
                                per = list(itertools.product(DRAWS[::5] + (0.5,), (LOW, HIGH)))
                                for combo in itertools.product(per, repeat=dim):
                                    d = [LOW]
                                    for r, s in combo:
                                        d += [LOW, r, s]
                                    yield boxes, (p1, p2), {"prob": prob, "eta": eta}, tuple(d)
        elif op == "pm":
            for eta in etas:
                for prob in probs:
                    for p in vecs:
                        per = list(itertools.product((LOW, HIGH), DRAWS + (0.5 - 2.0 ** -54, math.nextafter(0.5, 1.0))))
                        for combo in itertools.product(per if dim == 1 else per[::3], repeat=dim):
                            yield boxes, (p,), {"prob": prob, "eta": eta}, tuple(x for pair in combo for x in pair)
        elif op == "uniform":
            for pert in (0.5, 3.0, 100.0, 1e13):
                for prob in probs:
                    for p in vecs:
                        per = list(itertools.product((LOW, HIGH), DRAWS))
                        for combo in itertools.product(per if dim == 1 else per[::3], repeat=dim):
                            yield boxes, (p,), {"prob": prob, "pert": pert}, tuple(x for pair in combo for x in pair)
        else:
            for max_it in (1, 2, 10):
                for it in sorted({0, 1, max_it // 2, max_it}):
                    if it > max_it:
                        continue
                    for pert in (0.5, 5.0):
                        for prob in probs:
                            for p in vecs:
                                per = list(itertools.product((LOW, HIGH), (0.0, 0.25, 0.5, math.nextafter(0.5, 1.0), HIGH), DRAWS))
                                for combo in itertools.product(per if dim == 1 else per[::7], repeat=dim):
                                    yield boxes, (p,), {"prob": prob, "pert": pert, "max_it": max_it, "it": it}, \
                                        tuple(x for tr in combo for x in tr)


OFFGRID = ([0.0, 1.6], [0.0, 0.37], [-0.93, 0.41], [3.0, 13.7])


def check_generator(gen, nparams, shift, arg, precision):
    from artap import operators as ops
    if shift >= 100:      # bounds that do not lie on the precision grid
        ps = [{"name": pname(i), "bounds": list(OFFGRID[(i + shift) % len(OFFGRID)])} for i in range(nparams)]
    else:
        ps = [{"name": pname(i), "bounds": list(BOXES[(i + shift) % len(BOXES)])} for i in range(nparams)]
    if precision is not None:
        for p in ps:
            p["precision"] = precision
    desc = "%s nparams=%d shift=%d arg=%r precision=%r" % (gen, nparams, shift, arg, precision)
    try:
        if gen == "random":
            g = ops.RandomGenerator(ps)
            g.init(arg)
            rows, _ = with_draws([0.0, HIGH, 0.5, 0.8, 0.97, 0.03] * 8, g.generate)
        elif gen == "lhs":
            g = ops.LHSGenerator(ps)
            g.init(arg)
            rows = g.generate()
        elif gen == "halton":
            g = ops.HaltonGenerator(ps)
            g.init(arg)
            rows = g.generate()
        elif gen == "uniform":
            g = ops.UniformGenerator(ps)
            g.init(arg)
            rows = g.generate()
        elif gen == "fullfact":
            g = ops.FullFactorGenerator(ps)
            g.init(arg)
            rows = g.generate()
        elif gen == "pb":
            rows = ops.PlackettBurmanGenerator(ps).generate()
        else:
            rows = ops.BoxBehnkenGenerator(ps).generate()
    except Exception as e:
        return [("C08:generator:%s:exception:%s" % (gen, type(e).__name__), "%s raised %r" % (desc, e))]
    for r in rows:
        if len(r) != nparams:
            return [("C08:generator:%s:row-length" % gen, "row %r; %s" % (r, desc))]
        for v, p in zip(r, ps):
            lb, ub = p["bounds"]
            tol = max(1e-12 * max(1.0, abs(lb), abs(ub)), (precision or 0.0) / 2.0)
            if not real_in(v, lb - tol, ub + tol):
                return [("C08:generator:%s:out-of-box" % gen, "%r outside %r; %s" % (v, p["bounds"], desc))]
    return []


BOXSETS = {"unit": [[0.0, 1.0], [0.0, 1.0]], "negtiny": [[-3.0, -1.0], [0.0, 1e-9]], "hugefar": [[-1e12, 1e12], [1e6, 1e6 + 1.0]]}


def run_body_factory(name, N, G, nparams, boxset, seed, on_bounds=False):
    bounds0 = BOXSETS[boxset][:nparams]

    def body(ctx):
        from .c_support import run_algorithm
        prepare = before = None
        bounds = [list(b) for b in bounds0]
        if on_bounds == "narrowed":
            # the user narrows the declared box in place after the algorithm object exists: every evaluated design lies in
            # the box as declared when run() starts
            narrowed = [[lb + (ub - lb) * 0.25, ub - (ub - lb) * 0.375] for lb, ub in bounds]

            def prepare(problem, alg):
                for p, nb in zip(problem.parameters, narrowed):
                    p['bounds'][0], p['bounds'][1] = nb
            bounds = narrowed
        elif on_bounds == "scripted":
            # a fixed script of transient failures (calls 1, 2 and 5): replacements are drawn with extreme draws on offer
            calls = {"n": -1}

            def before(problem, individual):
                calls["n"] += 1
                if calls["n"] in (1, 2, 5):
                    raise (TimeoutError if calls["n"] != 2 else RuntimeError)("scripted")
        elif on_bounds:
            # the initial designs sit on the bounds (as clipped children do) and any objective call may fail transiently:
            # the re-sampled replacement must be inside the box as well
            def prepare(problem, alg):
                from artap.operators import CustomGenerator
                gen = CustomGenerator(problem.parameters)
                gen.init([[b[(k + i) % 2] for i, b in enumerate(bounds)] for k in range(N)])
                alg.generator = gen

            def before(problem, individual):
                if ctx.choose("fault", 2, 1, "objective") == 1:
                    raise TimeoutError("injected")
        problem, alg, exc = run_algorithm(name, ctx, seed, N, G, n_params=nparams, n_costs=2, bounds=[list(b) for b in bounds0], prepare=prepare, before=before,
                                          shim_cfg={"extreme_values": True, "price_value": 1, "price_decision": 1, "price_pick": 1, "max_draws": max(5000, 300 * N * (G + 1))})
        desc = "%s N=%d G=%d nparams=%d boxes=%r%s" % (name, N, G, nparams, bounds, (" (%s)" % on_bounds if isinstance(on_bounds, str) else " initial designs on the bounds, failures possible") if on_bounds else "")
        out = []
        if exc is not None:
            out.append(("C08:run:%s:exception:%s" % (name, type(exc).__name__), "%s raised %r" % (desc, exc)))
        for _, vec in problem.h_log:
            bad = False
            for v, (lb, ub) in zip(vec, bounds):
                tol = 1e-12 * max(1.0, abs(lb), abs(ub))
                if not real_in(v, lb - tol, ub + tol):
                    bad = True
            if bad or len(vec) != nparams:
                out.append(("C08:run:%s:evaluated-outside-box" % name, "objective received %r; %s" % (vec, desc)))
                break
        ctx.digest = tuple(v for _, v in problem.h_log)
        return out
    return body


def _shard(shard, col: Collector):
    kind = shard[0]
    if kind == "op":
        _, op, dim, tier, part, nparts = shard
        k = -1
        for boxes, parents, cfg, draws in operator_cases(op, dim, tier):
            k += 1
            if k % nparts != part:
                continue
            col.case()
            viol, used = check_operator(op, boxes, parents, cfg, draws)
            if used > 1:
                col.nontrivial((op, tuple(map(tuple, boxes)), parents, tuple(sorted(cfg.items())), draws))
            for key, msg in viol:
                col.violation(key, "op", msg, {"op": op, "boxes": boxes, "parents": parents, "cfg": cfg, "draws": draws})
            if k == part:
                col.sample({"operator": op, "boxes": boxes, "parents": parents, "cfg": cfg, "draws": draws}, 1)
    elif kind == "gen":
        for gen, args in (("random", (0, 1, 3, 1000, 1025)), ("lhs", (1, 3, 5, 513, 1025)), ("halton", (1, 4, 9, 513, 1025)), ("uniform", (2, 3)),
                          ("fullfact", (False, True)), ("pb", (None,)), ("bb", (None,))):
            for nparams in (1, 2, 3, 4):
                if gen == "bb" and nparams < 3:
                    continue
                for shift in range(len(BOXES)):
                    for arg in args:
                        for prec in ((None, 1e-1, 1e-3) if gen == "random" else (None,)):
                            col.case()
                            col.nontrivial(("gen", gen, nparams, shift, arg, prec))
                            for key, msg in check_generator(gen, nparams, shift, arg, prec):
                                col.violation(key, "gen", msg, {"gen": gen, "nparams": nparams, "shift": shift, "arg": arg, "precision": prec})
        for nparams in (1, 2, 3):
            for shift in (100, 101, 102, 103):
                for prec in (None, 1e-1, 1e-3, 0.5, 0.05, 0.25, 0.3, 2.0):
                    col.case()
                    col.nontrivial(("gen", "random", nparams, shift, 4, prec))
                    for key, msg in check_generator("random", nparams, shift, 4, prec):
                        col.violation(key, "gen", msg, {"gen": "random", "nparams": nparams, "shift": shift, "arg": 4, "precision": prec})
        # sweep: declared precisions that are no reciprocals of integers x bounds in unlucky positions x extreme draws
        from artap.utils import VectorAndNumbers
        sh = shim_mod.install()
        for prec in (0.3, 0.4, 0.6, 0.7, 0.75, 0.9, 1.5, 0.15, 0.035, 7.0):
            for lb in (0.0, 0.35, 1.4, -0.93, -2.45, 10.05):
                for wmul in (1.5, 2.3, 3.45, 10.2):
                    ub = lb + wmul * prec
                    for u in (0.0, HIGH, 0.5, 0.25, 0.75, 0.999):
                        col.case()
                        col.nontrivial(("gn", prec, lb, ub, u))
                        sh.reset(1, _Forced([u]))
                        try:
                            v = VectorAndNumbers.gen_vector([{"name": "a", "bounds": [lb, ub], "precision": prec}])[0]
                        except Exception as e:
                            col.violation("C08:gen_vector:exception:%s" % type(e).__name__, "gn", "gen_vector raised %r" % (e,), {"prec": prec, "lb": lb, "ub": ub, "u": u})
                            continue
                        finally:
                            sh.ctx = None
                        if not (lb - prec / 2.0 - 1e-12 <= v <= ub + prec / 2.0 + 1e-12):
                            col.violation("C08:gen_vector:outside-by-more-than-half-precision", "gn",
                                          "bounds [%r, %r] precision %r draw %r -> %r" % (lb, ub, prec, u, v), {"prec": prec, "lb": lb, "ub": ub, "u": u})
        col.sample({"generator": "random", "nparams": 2, "count": 3, "precision": 1e-3}, 1)
    elif kind == "run":
        _, name, N, G, nparams, boxset, seed, bound, part, nparts = shard[:10]
        on_bounds = len(shard) > 10 and shard[10]
        body = run_body_factory(name, N, G, nparams, boxset, seed, on_bounds)

        def on_exec(ctx, out):
            col.nontrivial((name, N, G, nparams, boxset, tuple(ctx.choices)))
        n = explore_part(body, col, part, nparts, bound=bound, sub="run", on_exec=on_exec,
                         case_extra={"name": name, "N": N, "G": G, "nparams": nparams, "boxset": boxset, "seed": seed, "on_bounds": on_bounds})
        if part == 0:
            col.sample({"algorithm": name, "N": N, "G": G, "nparams": nparams, "boxes": BOXSETS[boxset][:nparams], "deviation_bound": bound}, 1)


def replay(sub, case):
    if sub == "op":
        return check_operator(case["op"], [tuple(b) for b in case["boxes"]], tuple(tuple(p) for p in case["parents"]),
                              case["cfg"], tuple(case["draws"]))[0]
    if sub == "gen":
        return check_generator(case["gen"], case["nparams"], case["shift"], case["arg"], case["precision"])
    if sub == "gn":
        from artap.utils import VectorAndNumbers
        sh = shim_mod.install()
        sh.reset(1, _Forced([case["u"]]))
        try:
            v = VectorAndNumbers.gen_vector([{"name": "a", "bounds": [case["lb"], case["ub"]], "precision": case["prec"]}])[0]
        finally:
            sh.ctx = None
        ok = case["lb"] - case["prec"] / 2.0 - 1e-12 <= v <= case["ub"] + case["prec"] / 2.0 + 1e-12
        return [] if ok else [("C08:gen_vector:outside-by-more-than-half-precision", "got %r" % (v,))]
    if sub == "run":
        ctx, out = run_once(run_body_factory(case["name"], case["N"], case["G"], case["nparams"], case["boxset"], case["seed"],
                                             case.get("on_bounds", False)), case["choices"])
        return out
    raise ValueError(sub)


def run(tier, seed):
    import artap.algorithm_NSGAII, artap.algorithm_genetic, artap.algorithm_swarm  # noqa: F401,E401
    shards = []
    for op in ("sbx", "pm", "uniform", "nonuniform"):
        nparts = 8 if op in ("sbx", "nonuniform") else 2
        shards += [("op", op, 1, tier, p, nparts) for p in range(nparts)]
        shards += [("op", op, 2, tier, p, 4) for p in range(4)]
    shards.append(("gen",))
    bound = 2 if tier == "thorough" else 1
    for name in ("NSGAII", "EpsMOEA", "OMOPSO", "SMPSO", "PSOGA"):
        for (N, G) in ((2, 1), (2, 2), (3, 2), (4, 3)) if tier != "thorough" else ((2, 1), (2, 2), (3, 2), (3, 3), (4, 3)):
            for nparams, boxset in ((1, "unit"), (2, "negtiny"), (2, "hugefar")):
                if tier == "thorough" and (N, G) == (4, 3):
                    b, nparts = 1, 4
                else:
                    b, nparts = bound, (4 if tier == "thorough" else 1)
                for part in range(nparts):
                    shards.append(("run", name, N, G, nparams, boxset, seed, b, part, nparts))
    for (N, G) in ((2, 1), (3, 2)):
        for nparams, boxset in ((1, "unit"), (2, "negtiny"), (2, "hugefar")):
            shards.append(("run", "NSGAII", N, G, nparams, boxset, seed, 1, 0, 1, True))
    for name in ("NSGAII", "EpsMOEA", "OMOPSO", "SMPSO", "PSOGA"):
        for mode in ("narrowed", "scripted"):
            for (N, G) in ((2, 2), (3, 2)):
                for nparams, boxset in ((1, "unit"), (2, "negtiny")):
                    shards.append(("run", name, N, G, nparams, boxset, seed, 1, 0, 1, mode))
    for name in ("NSGAII", "EpsMOEA", "OMOPSO", "SMPSO", "PSOGA"):      # long and larger runs, default execution
        for (N, G) in ((4, 12), (10, 5)):
            for nparams, boxset in ((2, "negtiny"), (2, "hugefar")):
                shards.append(("run", name, N, G, nparams, boxset, seed, 0, 0, 1))
    col = run_shards(_shard, shards)
    return col, {"exhaustive": col.counters.get("caps_hit", 0) == 0, "boxes": BOXES, "value_draws": [repr(d) for d in DRAWS]}


RULE += (' Runs of all five algorithms with the declared bounds narrowed in place after the algorithm object exists, and with a fixed script of transient failures (calls 1, 2, 5) whose replacements are drawn with extreme answers on offer (numpy.random.normal as bound by artap.utils is owned: base, mean-4sigma, mean+4sigma).')

RULE += (' Beyond small: generator counts 1000, 1025 (random) and 513, 1025 (LHS, Halton).')
