"""C12 -- space-filling samplers have their defining coverage structure.

LHS with the RandomState owned by the harness (every combination of column permutations for small N, extreme uniform
draws), Halton against an independent radical inverse, the uniform grid, the random generator with extreme draws.
"""
import itertools
import math
from collections import Counter

from ..core.common import Collector, run_shards
from ..core.refmodels import radical_inverse, first_primes
from ..core import shim as shim_mod

PROPERTY = "C12"
LEVEL = "exploration"
RULE = ("LHS: 1..4 parameters x N=1..4 with every pair of column permutations (<=2 columns; otherwise every single permutation "
        "shared by the columns and every rotation) x uniform draws all-0 / all-.5 / all-(1-2^-53) and every <=2 cells deviating; "
        "N=5..8,16 with seeded permutations and every N=1..260 for 1-3 parameters; Halton: N<=64 over all boxes plus every N = b^e-1, b^e, b^e+1 <= 1100 (thorough 60000) for the six bases, 1..6 parameters; grid: k=2..5 for 1..3 parameters, k=6..60 (thorough 120) for one parameter over 11 boxes, k=6..14 for two; every deterministic generator object used repeatedly (returned designs overwritten by the caller, bounds changed in place); random: counts 0..5 with "
        "draws at the extremes; boxes from the common list. Non-trivial = N>=2 or >=2 parameters; distinct = distinct configurations.")
ASSUMPTIONS = ["numpy's RandomState.rand/permutation are replaced by scripted answers with the same contract "
               "(values in [0,1), a permutation of range(N))",
               "bounds tolerance: 1e-12 relative to max(1,|lb|,|ub|)"]

from .c13 import BOXES, params  # noqa: E402

ONE_MINUS = 1.0 - 2.0 ** -53


class ScriptedState:
    """Stands in for numpy.random.RandomState inside artap.doe.lhs."""

    def __init__(self, uniform, perms, log):
        self.uniform = uniform       # callable (samples, n) -> array
        self.perms = list(perms)     # list of permutations handed out in order (cycled)
        self.k = 0
        self.log = log

    def rand(self, *shape):
        import numpy as np
        self.log.append(("rand", shape))
        return np.array(self.uniform(*shape), dtype=float).reshape(shape)

    def permutation(self, x):
        import numpy as np
        # numpy's contract: an int means arange(x); a sequence is returned permuted
        items = np.arange(x) if isinstance(x, (int, np.integer)) else np.asarray(list(x))
        n = len(items)
        self.log.append(("permutation", n))
        p = self.perms[self.k % len(self.perms)]
        self.k += 1
        assert len(p) == n
        return items[np.array(p, dtype=int)]


class NPProxy:
    """numpy look-alike for artap.doe: everything delegated, except random.RandomState."""

    def __init__(self, factory):
        import numpy
        self._np = numpy
        self._factory = factory

        class _R:
            def __getattr__(s, name):
                return getattr(numpy.random, name)

            def RandomState(s, *a, **k):
                return factory()
        rs = _R()
        self.random = rs

    def __getattr__(self, name):
        return getattr(self._np, name)


def run_lhs(nparams, shift, N, uniform, perms):
    import artap.doe as doe
    from artap.operators import LHSGenerator
    log = []
    real_np = doe.np
    real_RS = real_np.random.RandomState
    state = ScriptedState(uniform, perms, log)
    doe.np = NPProxy(lambda: state)
    try:
        g = LHSGenerator(params(nparams, shift))
        g.init(N)
        rows = g.generate()
    finally:
        doe.np = real_np
    return rows, log


def strata_violations(rows, ps, N, desc):
    out = []
    if len(rows) != N:
        return [("C12:lhs:count", "%d samples instead of %d; %s" % (len(rows), N, desc))]
    if any(len(r) != len(ps) for r in rows):
        return [("C12:lhs:row-length", desc)]
    for j, p in enumerate(ps):
        lb, ub = p["bounds"]
        w = ub - lb
        slack = 1e-12 + 8 * 2.0 ** -52 * max(abs(lb), abs(ub)) / w
        norm = sorted((float(r[j]) - lb) / w for r in rows)
        for i, v in enumerate(norm):
            if not (i / N - slack <= v <= (i + 1) / N + slack):
                out.append(("C12:lhs:stratum", "parameter %d: sorted normalised samples %r, sample %d outside [%g, %g]; %s" % (
                    j, norm, i, i / N, (i + 1) / N, desc)))
                return out
    return out


def check_lhs(nparams, shift, N, ucase, perms):
    """ucase: ('const', v) or ('cells', base, [(row, col, v), ...])."""
    def uniform(samples, n):
        m = [[ucase[1]] * n for _ in range(samples)]
        if ucase[0] == "cells":
            for (r, c, v) in ucase[2]:
                if r < samples and c < n:
                    m[r][c] = v
        return m
    desc = "LHS nparams=%d shift=%d N=%d uniform=%r perms=%r" % (nparams, shift, N, ucase, perms)
    try:
        rows, log = run_lhs(nparams, shift, N, uniform, perms)
    except Exception as e:
        return [("C12:lhs:exception:%s" % type(e).__name__, "%s raised %r" % (desc, e))]
    if not log:
        NOT_OWNED.append(desc)   # the scripted RandomState was bypassed: only the output can be judged
    return strata_violations(rows, params(nparams, shift), N, desc)


NOT_OWNED = []


def check_lhs_seeded(nparams, shift, N, seed):
    """Larger N: a real, seeded RandomState supplies draws and permutations."""
    import numpy as np
    import artap.doe as doe
    from artap.operators import LHSGenerator
    real_np = doe.np
    rs = np.random.RandomState(seed)
    doe.np = NPProxy(lambda: rs)
    desc = "LHS nparams=%d shift=%d N=%d RandomState(%d)" % (nparams, shift, N, seed)
    try:
        g = LHSGenerator(params(nparams, shift))
        g.init(N)
        rows = g.generate()
    except Exception as e:
        return [("C12:lhs:exception:%s" % type(e).__name__, "%s raised %r" % (desc, e))]
    finally:
        doe.np = real_np
    return strata_violations(rows, params(nparams, shift), N, desc)


def check_halton(nparams, shift, N):
    from artap.operators import HaltonGenerator
    ps = params(nparams, shift)
    g = HaltonGenerator(ps)
    g.init(N)
    desc = "Halton nparams=%d shift=%d N=%d" % (nparams, shift, N)
    try:
        rows = g.generate()
    except Exception as e:
        return [("C12:halton:exception:%s" % type(e).__name__, "%s raised %r" % (desc, e))]
    if len(rows) != N or any(len(r) != nparams for r in rows):
        return [("C12:halton:shape", "%s: %d rows" % (desc, len(rows)))]
    primes = first_primes(nparams)
    for i, r in enumerate(rows):
        for j, p in enumerate(ps):
            lb, ub = p["bounds"]
            exp = lb + radical_inverse(i + 1, primes[j]) * (ub - lb)
            if abs(float(r[j]) - exp) > 1e-12 * max(1.0, abs(lb), abs(ub)):
                return [("C12:halton:value:%s" % ("first-point" if i == 0 else "later-point"),
                         "%s: point %d parameter %d (base %d) is %r, expected %r" % (desc, i + 1, j, primes[j], r[j], exp))]
    return []


EXTRA_BOXES = ([-2.5, 5.0], [-5.12, 5.12], [6.0, 10.0], [-1.0, 1.0])


def grid_params(nparams, shift):
    allb = list(BOXES) + list(EXTRA_BOXES)
    from .c13 import pname
    return [{"name": pname(i), "bounds": list(allb[(i + shift) % len(allb)])} for i in range(nparams)]


def check_grid(nparams, shift, k):
    from artap.operators import UniformGenerator
    ps = grid_params(nparams, shift)
    g = UniformGenerator(ps)
    g.init(k)
    desc = "grid nparams=%d shift=%d k=%d" % (nparams, shift, k)
    try:
        rows = g.generate()
    except Exception as e:
        return [("C12:grid:exception:%s" % type(e).__name__, "%s raised %r" % (desc, e))]
    if len(rows) != k ** nparams or any(len(r) != nparams for r in rows):
        return [("C12:grid:shape", "%s: %d rows, expected %d" % (desc, len(rows), k ** nparams))]
    # map every coordinate to its level index
    idx_rows = []
    for r in rows:
        idx = []
        for v, p in zip(r, ps):
            lb, ub = p["bounds"]
            t = (float(v) - lb) / (ub - lb) * (k - 1)
            ti = int(round(t))
            exp = lb + ti * (ub - lb) / (k - 1)
            if not (0 <= ti <= k - 1) or abs(float(v) - exp) > 1e-9 * max(abs(lb), abs(ub), ub - lb):
                return [("C12:grid:level-value", "%s: coordinate %r is not one of the %d equally spaced levels of %r" % (desc, v, k, p["bounds"]))]
            idx.append(ti)
        idx_rows.append(tuple(idx))
    if Counter(idx_rows) != Counter(itertools.product(range(k), repeat=nparams)):
        return [("C12:grid:not-the-full-grid", "%s: level combinations %r" % (desc, sorted(Counter(idx_rows).items())[:6]))]
    return []


def check_reuse(gen, nparams, shift, arg):
    """One generator object used repeatedly: the caller modifies a returned design in place, then asks again; then the
    bounds of the shared parameter list are changed in place and a new design is requested."""
    from artap import operators as ops
    import copy
    ps = grid_params(nparams, shift)

    def make():
        if gen == "uniform":
            g = ops.UniformGenerator(ps)
            g.init(arg)
        elif gen == "halton":
            g = ops.HaltonGenerator(ps)
            g.init(arg)
        elif gen == "fullfact":
            g = ops.FullFactorGenerator(ps)
            g.init(arg)
        elif gen == "pb":
            g = ops.PlackettBurmanGenerator(ps)
        else:
            g = ops.BoxBehnkenGenerator(ps)
        return g
    desc = "%s nparams=%d shift=%d arg=%r reused" % (gen, nparams, shift, arg)
    try:
        g = make()
        first = [list(map(float, r)) for r in g.generate()]
        # another generator object of the same class with other parameters is used in between (no state may be shared)
        ps_other = grid_params(max(1, nparams - 1) if gen not in ("bb",) else nparams + 1, shift + 3)
        ps_saved, ps[:] = list(ps), ps_other
        try:
            other = make()
        finally:
            ps[:] = ps_saved
        other.parameters = ps_other
        other.generate()
        r1 = g.generate()
        for row in r1:
            for i in range(len(row)):
                row[i] = 12345.0            # the caller scribbles over what it was given
        second = [list(map(float, r)) for r in g.generate()]
        fresh = [list(map(float, r)) for r in make().generate()]
    except Exception as e:
        return [("C12:reuse:%s:exception:%s" % (gen, type(e).__name__), "%s raised %r" % (desc, e))]
    out = []
    if second != first or fresh != first:
        out.append(("C12:reuse:%s:result-depends-on-earlier-calls" % gen,
                    "%s: first call %r..., after the caller modified a returned design %r..., fresh object %r..." % (desc, first[:2], second[:2], fresh[:2])))
        return out
    # bounds changed in place afterwards: the next design must follow the declared bounds
    try:
        for p in ps:
            lb, ub = p["bounds"]
            p["bounds"][0], p["bounds"][1] = lb + 1.0, ub + 3.0
        moved = [list(map(float, r)) for r in g.generate()]
        expect = [list(map(float, r)) for r in make().generate()]
    except Exception as e:
        return [("C12:reuse:%s:exception:%s" % (gen, type(e).__name__), "%s raised %r after the bounds changed" % (desc, e))]
    if moved != expect:
        out.append(("C12:reuse:%s:stale-bounds" % gen, "%s: after the bounds were changed the reused object returned %r..., a fresh one %r..." % (desc, moved[:2], expect[:2])))
    return out


class _Forced:
    def __init__(self, vals):
        self.vals = list(vals)
        self.i = 0

    def force_unit(self, b):
        v = self.vals[self.i % len(self.vals)]
        self.i += 1
        return b if v is None else v

    def choose(self, kind, n, price=1, label=None):
        return 0


def check_random(nparams, shift, count, draws, precision=None):
    from artap.operators import RandomGenerator
    sh = shim_mod.install()
    ps = params(nparams, shift)
    if precision is not None:
        for p in ps:
            p["precision"] = precision
    g = RandomGenerator(ps)
    g.init(count)
    desc = "random nparams=%d shift=%d count=%d draws=%r precision=%r" % (nparams, shift, count, draws, precision)
    sh.reset(99, _Forced(draws), max_draws=max(5000, 2 * count * nparams + 100))
    try:
        rows = g.generate()
    except Exception as e:
        return [("C12:random:exception:%s" % type(e).__name__, "%s raised %r" % (desc, e))]
    finally:
        sh.ctx = None
    if len(rows) != count:
        return [("C12:random:count", "%s: %d designs" % (desc, len(rows)))]
    for r in rows:
        if len(r) != nparams:
            return [("C12:random:row-length", "%s: row %r" % (desc, r))]
        for v, p in zip(r, ps):
            lb, ub = p["bounds"]
            tol = max(1e-12 * max(1.0, abs(lb), abs(ub)), (precision or 0.0) / 2.0)
            if not (lb - tol <= v <= ub + tol):
                return [("C12:random:out-of-bounds", "%s: %r outside %r" % (desc, v, p["bounds"]))]
    return []


HETERO = [
    # parameter lists whose members declare DIFFERENT keys (an integer parameter next to a real one, a coarse precision next
    # to none, a parameter given by initial_value only): every parameter is drawn by its own declaration
    [{"name": "turns", "bounds": [12, 60], "parameter_type": "integer"}, {"name": "fill_factor", "bounds": [0.25, 0.75]}],
    [{"name": "a", "bounds": [0.0, 100.0], "precision": 5.0}, {"name": "b", "bounds": [0.25, 0.75]}, {"name": "c", "bounds": [10.3, 10.9]}],
    [{"name": "a", "bounds": [0.25, 0.75]}, {"name": "n", "bounds": [3, 9], "parameter_type": "integer"}, {"name": "b", "bounds": [-0.75, -0.25]}],
    [{"name": "a", "bounds": [1.0, 2.0], "precision": 0.5}, {"name": "n", "bounds": [100, 200], "parameter_type": "integer"}, {"name": "b", "bounds": [0.26, 0.74], "precision": 1e-2},
     {"name": "c", "bounds": [0.251, 0.749]}],
    [{"name": "iv", "initial_value": 4.0}, {"name": "b", "bounds": [0.25, 0.75]}, {"name": "iv2", "initial_value": -2.0, "precision": 0.5}],
]


def check_hetero(k, count, draws):
    from artap.operators import RandomGenerator
    import copy
    sh = shim_mod.install()
    ps = copy.deepcopy(HETERO[k])
    g = RandomGenerator(ps)
    g.init(count)
    desc = "random generator on parameters %r count=%d draws=%r" % (HETERO[k], count, draws)
    sh.reset(99, _Forced(draws))
    try:
        rows = g.generate()
    except Exception as e:
        return [("C12:random:hetero:exception:%s" % type(e).__name__, "%s raised %r" % (desc, e))]
    finally:
        sh.ctx = None
    if len(rows) != count:
        return [("C12:random:hetero:count", "%s: %d designs" % (desc, len(rows)))]
    for r in rows:
        if len(r) != len(ps):
            return [("C12:random:hetero:row-length", "%s: row %r" % (desc, r))]
        for v, p in zip(r, ps):
            if "bounds" in p:
                lb, ub = p["bounds"]
            else:
                lb, ub = sorted((p["initial_value"] * 0.5, p["initial_value"] * 1.5))
            tol = max(1e-12 * max(1.0, abs(lb), abs(ub)), p.get("precision", 0.0) / 2.0)
            if not (lb - tol <= v <= ub + tol):
                return [("C12:random:hetero:out-of-bounds", "%s: parameter %r got %r" % (desc, p["name"], v))]
            if p.get("parameter_type") == "integer" and v != int(v):
                return [("C12:random:hetero:integer-parameter-not-integral", "%s: parameter %r got %r" % (desc, p["name"], v))]
    return []


def _shard(shard, col: Collector):
    kind = shard[0]

    def rec(sub, case, viol, nontrivial=True):
        col.case()
        if nontrivial:
            col.nontrivial((sub, repr(case)))
        for key, msg in viol:
            col.violation(key, sub, msg, case)
    if kind == "lhs":
        _, nparams, N, shift = shard
        perms_all = list(itertools.permutations(range(N)))
        if nparams <= 2:
            perm_sets = [list(c) for c in itertools.product(perms_all, repeat=nparams)]
        else:
            perm_sets = [[p] * nparams for p in perms_all] + \
                        [[perms_all[(a + j) % len(perms_all)] for j in range(nparams)] for a in range(len(perms_all))]
        ucases = [("const", 0.0), ("const", 0.5), ("const", ONE_MINUS)]
        cells = [(r, c) for r in range(N) for c in range(nparams)]
        for base in (0.5,):
            for k in (1, 2):
                for cs in itertools.combinations(cells, k):
                    for vals in itertools.product((0.0, ONE_MINUS), repeat=k):
                        ucases.append(("cells", base, [(r, c, v) for (r, c), v in zip(cs, vals)]))
        for perms in perm_sets:
            for uc in (ucases if len(perm_sets) * len(ucases) <= 20000 else ucases[:3 + 2 * len(cells)]):
                rec("lhs", {"nparams": nparams, "shift": shift, "N": N, "ucase": uc, "perms": perms},
                    check_lhs(nparams, shift, N, uc, perms), N >= 2 or nparams >= 2)
        if NOT_OWNED:
            col.notes.append("LHS randomness not owned (scripted RandomState bypassed): cases judged on their output only")
            col.count("lhs_not_owned", len(NOT_OWNED))
        col.sample({"kind": "lhs", "nparams": nparams, "N": N, "uniform": "all 0.5 with cell (0,0) = 0.0", "perms": perm_sets[-1]}, 1)
    elif kind == "lhs_seeded":
        _, seed = shard
        for nparams in (1, 2, 3, 4):
            for N in (5, 6, 7, 8, 16):
                for shift in range(len(BOXES)):
                    for s in range(seed * 4, seed * 4 + 4):
                        rec("lhs_seeded", {"nparams": nparams, "shift": shift, "N": N, "seed": s},
                            check_lhs_seeded(nparams, shift, N, s))
        # every sample count up to 260 (interval arithmetic such as 1/N accumulates differently for each N)
        for N in range(1, 261):
            for nparams, shift in ((1, 0), (2, 3), (3, 5)):
                rec("lhs_seeded", {"nparams": nparams, "shift": shift % len(BOXES), "N": N, "seed": seed * 4},
                    check_lhs_seeded(nparams, shift % len(BOXES), N, seed * 4))
        for N in (300, 511, 512, 513, 514, 600, 1000, 1023, 1024, 1025, 1200, 2048, 2049, 4097):
            for nparams, shift in ((1, 0), (2, 3), (4, 5)):
                rec("lhs_seeded", {"nparams": nparams, "shift": shift % len(BOXES), "N": N, "seed": seed * 4},
                    [(k, m[:300]) for k, m in check_lhs_seeded(nparams, shift % len(BOXES), N, seed * 4)])
        col.sample({"kind": "lhs-seeded", "nparams": 3, "N": 8, "seed": seed * 4}, 1)
    elif kind == "halton":
        nparams = shard[1]
        for shift in range(len(BOXES)):
            for N in (1, 2, 3, 7, 8, 9, 27, 64):
                rec("halton", {"nparams": nparams, "shift": shift, "N": N}, check_halton(nparams, shift, N), True)
        # sample counts at and around powers of the prime bases (digit-count boundaries of the radical inverse)
        big = sorted({b ** e + d for b in (2, 3, 5, 7, 11, 13) for e in range(2, 11) for d in (-1, 0, 1) if 64 < b ** e + d <= shard[2]})
        for N in sorted(set(big) | {100, 257, 300, 600, 1000, 1200, 2049, 4097}):
            rec("halton", {"nparams": nparams, "shift": 0, "N": N}, [(k, m[:300]) for k, m in check_halton(nparams, 0, N)], True)
        col.sample({"kind": "halton", "nparams": nparams, "N": 64}, 1)
    elif kind == "grid":
        for nparams in (1, 2, 3):
            for k in (2, 3, 4, 5):
                for shift in range(len(BOXES)):
                    rec("grid", {"nparams": nparams, "shift": shift, "k": k}, check_grid(nparams, shift, k), True)
        # many level counts for one parameter (k-1 divisions that are not exactly representable), a few for two
        for k in range(6, shard[1] + 1):
            for shift in range(len(BOXES) + len(EXTRA_BOXES)):
                rec("grid", {"nparams": 1, "shift": shift, "k": k}, check_grid(1, shift, k), True)
        for k in range(6, 15):
            for shift in (0, len(BOXES), len(BOXES) + 1):
                rec("grid", {"nparams": 2, "shift": shift, "k": k}, check_grid(2, shift, k), True)
        for gen, args in (("uniform", (2, 3, 5)), ("halton", (1, 5)), ("fullfact", (False, True)), ("pb", (None,)), ("bb", (None,))):
            for nparams in (1, 2, 3, 4):
                if gen == "bb" and nparams < 3:
                    continue
                for shift in (0, 2, 7):
                    for arg in args:
                        rec("reuse", {"gen": gen, "nparams": nparams, "shift": shift, "arg": arg}, check_reuse(gen, nparams, shift, arg), True)
        col.sample({"kind": "grid", "nparams": 2, "k": 4}, 1)
    elif kind == "random":
        for nparams in (1, 2, 3, 4):
            for count in range(0, 6):
                for shift in range(len(BOXES)):
                    for draws in ([0.0], [ONE_MINUS], [0.5], [None], [0.0, ONE_MINUS], [ONE_MINUS, 0.0, 0.5]):
                        for prec in (None, 1e-1, 1e-3):
                            rec("random", {"nparams": nparams, "shift": shift, "count": count, "draws": draws, "precision": prec},
                                check_random(nparams, shift, count, draws, prec), count >= 1)
        for count in (100, 999, 1000, 1001, 2048, 4097):          # sample counts at which a vectorised path would switch on
            for nparams in (2, 3, 4):
                for shift in range(len(BOXES)):
                    rec("random", {"nparams": nparams, "shift": shift, "count": count, "draws": [None], "precision": None},
                        [(k, m[:300]) for k, m in check_random(nparams, shift, count, [None], None)], True)
        for k in range(len(HETERO)):
            for count in (1, 2, 4):
                for draws in ([0.0], [ONE_MINUS], [0.5], [None], [0.0, ONE_MINUS], [ONE_MINUS, 0.0, 0.5], [0.3, 0.7, 0.1, 0.9]):
                    rec("hetero", {"k": k, "count": count, "draws": draws}, check_hetero(k, count, draws), True)
        col.sample({"kind": "random", "nparams": 2, "count": 3, "draws": [0.0, ONE_MINUS]}, 1)


def replay(sub, case):
    if sub == "hetero":
        return check_hetero(case["k"], case["count"], case["draws"])
    if sub == "lhs":
        uc = case["ucase"]
        uc = (uc[0], uc[1]) if uc[0] == "const" else (uc[0], uc[1], [tuple(c) for c in uc[2]])
        return check_lhs(case["nparams"], case["shift"], case["N"], uc, [tuple(p) for p in case["perms"]])
    if sub == "lhs_seeded":
        return check_lhs_seeded(case["nparams"], case["shift"], case["N"], case["seed"])
    if sub == "halton":
        return check_halton(case["nparams"], case["shift"], case["N"])
    if sub == "grid":
        return check_grid(case["nparams"], case["shift"], case["k"])
    if sub == "reuse":
        return check_reuse(case["gen"], case["nparams"], case["shift"], case["arg"])
    if sub == "random":
        return check_random(case["nparams"], case["shift"], case["count"], case["draws"], case["precision"])
    raise ValueError(sub)


def run(tier, seed):
    shards = []
    for nparams in (1, 2, 3, 4):
        for N in (1, 2, 3, 4):
            if nparams == 2 and N == 4 and tier != "thorough":
                shifts = (0,)
            else:
                shifts = (0, 2, 5) if tier != "thorough" else range(len(BOXES))
            for shift in shifts:
                shards.append(("lhs", nparams, N, shift))
    shards += [("lhs_seeded", seed * 2 + i) for i in range(2 if tier != "thorough" else 8)]
    nmax = 60000 if tier == "thorough" else 1100
    shards += [("halton", n, nmax) for n in (1, 2, 3, 4, 5, 6)] + [("grid", 120 if tier == "thorough" else 60), ("random",)]
    shards.sort(key=lambda s: -(s[1] * s[2] if s[0] == "lhs" else 0))
    col = run_shards(_shard, shards)
    return col, {"exhaustive": True, "boxes": BOXES}

RULE += (' Beyond small: LHS for N in {300, 511..514, 600, 1000, 1023..1025, 1200, 2048, 2049, 4097}, Halton for the same round numbers, random counts up to 4097, parameter lists whose members declare different keys.')
