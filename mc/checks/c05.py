"""C05 -- each design is evaluated exactly once and stored costs belong to its vector.

Bounded exhaustive enumeration of batches / evaluation histories / sign assignments / constraint outcomes, sweeps, and
every gradient-free SciPy and NLopt method through the scalar bridge, with a call log as the oracle.
"""
import itertools
import math

from ..core.common import Collector, run_shards
from ..core.refmodels import ref_dominance

PROPERTY = "C05"
LEVEL = "exploration"
RULE = ("(A) batches of 1..3 designs x every new/already-evaluated mix x the same batch evaluated 1..3 times x min/max x serial and "
        "(2-worker model executor, default schedule) parallel path; (B) one design x m in {1,2} x every min/max/absent assignment x every "
        "cost value (pair) from a 7-value list incl. -0.0 and rounding cases x stored precision {7,3}; (C) constrained problems: every "
        "ordered pair of constraint outcomes from 5 lists x cost orderings, unconstrained pairs, and a constrained design re-sampled after 0/1/2/4 transient failures into the satisfying or violating region; (D) sweeps with custom (duplicates), "
        "uniform, full-factorial, random generators; (E) every SciPy method that runs without a Jacobian and every NLopt algorithm artap "
        "lists x min/max x two start points, 12 iterations, per-call oracle on the scalar bridge. Non-trivial = at least one objective call; "
        "distinct = distinct case tuples.")
ASSUMPTIONS = ["SciPy/NLopt choose the query points; the oracle is per call and independent of which points they choose",
               "nlopt.srand(seed) fixes NLopt's internal generator",
               "rounding: |signed - sign*cost| <= 0.5*10^-p and signed is a multiple of 10^-p to floating-point accuracy"]

COSTVALS = (0.0, -0.0, 1.0, 0.123456789, -0.00000005, 1e-9, 12345.678912345)
GLISTS = ([-1.0], [-1.0, -2.0], [0.0], [1.0, -1.0], [-1e-300], [-4.0, float("nan")], [float("nan"), -1.0], [-1.0, -2.0, 5e-324])


def sat(g):
    return all(v < 0 for v in g)


def rounded_ok(got, sign, c, prec):
    exp = sign * c
    step = 10.0 ** -prec
    if abs(got - exp) > 0.5 * step * (1 + 1e-9) + 1e-15 * abs(exp):
        return False
    q = got / step
    return abs(q - round(q)) <= 1e-6 * max(1.0, abs(q))


def sign_for(crit):
    return -1.0 if crit == "maximize" else 1.0


# ---------------------------------------------------------------- (A) batch protocol
def check_batch(n, mix, repeats, crit, parallel, same_ids=False, loaded=False):
    from artap.algorithm import DummyAlgorithm
    from artap.individual import Individual
    from .c_support import make_problem, reset_ids
    reset_ids()
    returned = {}

    def f(v):
        r = [v[0] * 2.0 + 0.5]
        returned[tuple(v)] = r
        return r
    problem = make_problem(n_params=1, bounds=[[0.0, 10.0]], criteria=[crit], f=f)
    alg = DummyAlgorithm(problem)
    if parallel:
        alg.options['max_processes'] = 2
    batch = []
    for k in range(n):
        ind = Individual([float(k + 1)])
        if mix[k]:
            ind.state = Individual.State.EVALUATED
            ind.costs = [99.0 + k]
            ind.costs_signed = [sign_for(crit) * (99.0 + k), True]
        if same_ids:
            ind.id = 7           # distinct designs that carry the same id (copies, reloaded individuals)
        if loaded and mix[k]:
            # an evaluated design as a store hands it out: through to_dict / JSON / from_dict
            import json
            ind = Individual.from_dict(json.loads(json.dumps(ind.to_dict())))
        batch.append(ind)
    out = []
    desc = "n=%d evaluated-mix=%r repeats=%d criteria=%s parallel=%r same_ids=%r loaded=%r" % (n, mix, repeats, crit, parallel, same_ids, loaded)
    from ..core.sched import default_parallel
    for rep in range(repeats):
        before = len(problem.h_log)
        try:
            if parallel:
                with default_parallel():
                    alg.evaluate(batch)
            else:
                alg.evaluate(batch)
        except Exception as e:
            return [("C05:batch:exception:%s" % type(e).__name__, "evaluate raised %r; %s" % (e, desc))]
        calls = problem.h_log[before:]
        exp_calls = [(id(ind), tuple(ind.vector)) for k, ind in enumerate(batch) if not mix[k]] if rep == 0 else []
        if (sorted(calls) if parallel else calls) != (sorted(exp_calls) if parallel else exp_calls):
            if len(calls) > len(exp_calls):
                kind = "evaluated-design-called" if rep == 0 else "called-again-on-repeat"
            elif len(calls) < len(exp_calls):
                kind = "new-design-not-called"
            else:
                kind = "order-or-identity"
            out.append(("C05:batch:call-log:%s" % kind, "round %d: objective calls %r, expected %r; %s" % (rep, [c[1] for c in calls], [c[1] for c in exp_calls], desc)))
    for k, ind in enumerate(batch):
        if ind.state != Individual.State.EVALUATED and not (loaded and mix[k] and ind.state == Individual.to_string(Individual.State.EVALUATED)):
            out.append(("C05:batch:state", "design %d state %r; %s" % (k, ind.state, desc)))
        if mix[k]:
            if ind.costs != [99.0 + k]:
                out.append(("C05:batch:evaluated-design-overwritten", "design %d costs %r; %s" % (k, ind.costs, desc)))
        else:
            r = returned.get(tuple(ind.vector))
            if ind.costs is not r:
                out.append(("C05:batch:costs-not-the-returned-list", "design %d costs %r, objective returned %r; %s" % (k, ind.costs, r, desc)))
            elif not (len(ind.costs_signed) == 2 and rounded_ok(ind.costs_signed[0], sign_for(crit), r[0], 7)):
                out.append(("C05:batch:signed-costs", "design %d signed %r for costs %r; %s" % (k, ind.costs_signed, r, desc)))
    return out


def check_objective_values(kind, parallel, via):
    """What the objective RETURNS (not raises): numpy arrays and tuples, zeros, non-finite values, surplus auxiliary outputs,
    and designs that are almost but not exactly the same point. Every design keeps its vector, is evaluated once, nothing is
    logged as failed, and its costs are the returned values."""
    import numpy as np
    from artap.algorithm import DummyAlgorithm
    from artap.algorithm_sweep import SweepAlgorithm
    from artap.individual import Individual
    from artap.operators import CustomGenerator
    from .c_support import make_problem, reset_ids
    reset_ids()
    near = kind == "near"
    vecs = [[0.5 + 3e-9 * k, 0.25] for k in range(6)] if near else [[0.0, 0.0], [0.5, 0.25], [1.0, 1.0], [0.25, 0.75]]
    snap = {}

    def f(v):
        base = v[0] * 1.000000123456789 + v[1]
        if kind == "ndarray":
            r = np.array([base * 0.0 if v == vecs[0] else base])       # np.array([0.0]) is falsy
        elif kind == "tuple":
            r = (base,)
        elif kind == "npscalar-list":
            r = [np.float64(base)]
        elif kind == "zero-list":
            r = [0.0]
        elif kind == "nonfinite":
            r = [[float("inf"), float("nan"), float("-inf"), 1.5][(vecs.index(v) if v in vecs else 3) % 4]]
        elif kind == "warns":
            import warnings
            warnings.warn("overflow encountered in the objective", RuntimeWarning)     # a warning is not a failure
            r = [base]
        elif kind == "surplus":
            r = [base, 123.456]            # an auxiliary output after the declared objective
        else:
            r = [base]
        snap[tuple(v)] = [repr(float(x)) for x in r]
        return r
    problem = make_problem(n_params=2, bounds=[[0.0, 1.0]] * 2, criteria=["minimize"], f=f)
    desc = "objective kind=%s parallel=%r via=%s" % (kind, parallel, via)
    batch = [Individual(list(v)) for v in vecs]
    from ..core.sched import default_parallel
    import contextlib
    try:
        with (default_parallel() if parallel else contextlib.nullcontext()):
            if via == "sweep":
                gen = CustomGenerator(problem.parameters)
                gen.init([list(v) for v in vecs])
                alg = SweepAlgorithm(problem, generator=gen)
                if parallel:
                    alg.options['max_processes'] = 2
                alg.options['verbose_level'] = 0
                alg.run()
                batch = list(problem.individuals)
            else:
                alg = DummyAlgorithm(problem)
                if parallel:
                    alg.options['max_processes'] = 2
                alg.evaluate(batch)
    except Exception as e:
        return [("C05:objective-values:%s:exception:%s" % (kind, type(e).__name__), "raised %r; %s" % (e, desc))]
    out = []
    calls = [c[1] for c in problem.h_log]
    want = [tuple(v) for v in vecs]
    if (sorted(calls) if parallel else calls) != (sorted(want) if parallel else want):
        out.append(("C05:objective-values:%s:call-log" % kind, "objective saw %r, the designs are %r; %s" % (calls, want, desc)))
    if problem.failed:
        out.append(("C05:objective-values:%s:logged-as-failed" % kind, "%d designs logged as failed although the objective returned; %s" % (len(problem.failed), desc)))
    if [tuple(i.vector) for i in batch] != want:
        out.append(("C05:objective-values:%s:vector-replaced" % kind, "designs now at %r, were %r; %s" % ([tuple(i.vector) for i in batch], want, desc)))
    else:
        for ind in batch:
            try:
                got = [repr(float(x)) for x in ind.costs]
            except (TypeError, ValueError):
                got = [repr(x) for x in ind.costs]
            if got != snap.get(tuple(ind.vector)):
                out.append(("C05:objective-values:%s:costs-are-not-the-returned-values" % kind, "design %r costs %r, objective returned %r; %s" % (
                    list(ind.vector), got, snap.get(tuple(ind.vector)), desc)))
                break
    return out


# ---------------------------------------------------------------- (B) signed costs
def check_signed(costs, crits, prec):
    from artap.algorithm import DummyAlgorithm
    from artap.individual import Individual
    from .c_support import make_problem
    problem = make_problem(n_params=1, criteria=list(crits), f=lambda v: list(costs))
    alg = DummyAlgorithm(problem)
    ind = Individual([0.5])
    ind.features["precision"] = prec
    desc = "costs=%r criteria=%r precision=%d" % (costs, crits, prec)
    try:
        alg.evaluate([ind])
    except Exception as e:
        return [("C05:signed:exception:%s" % type(e).__name__, "evaluate raised %r; %s" % (e, desc))]
    out = []
    if list(ind.costs) != list(costs):
        out.append(("C05:signed:costs-changed", "costs %r; %s" % (ind.costs, desc)))
    cs = ind.costs_signed
    if len(cs) != len(costs) + 1:
        return out + [("C05:signed:length", "costs_signed %r; %s" % (cs, desc))]
    for j, (c, crit) in enumerate(zip(costs, crits)):
        if not rounded_ok(float(cs[j]), sign_for(crit), c, prec):
            which = "sign" if abs(float(cs[j]) + sign_for(crit) * c) < 1e-6 and c != 0 else "rounding"
            out.append(("C05:signed:%s:%s" % (which, crit or "absent"), "objective %d: signed %r for cost %r; %s" % (j, cs[j], c, desc)))
    if cs[-1] is not True and cs[-1] != 1:
        out.append(("C05:signed:unconstrained-marker", "marker %r for an unconstrained problem; %s" % (cs[-1], desc)))
    return out


# ---------------------------------------------------------------- (C) constraint marker
def check_constraints(g1, g2, c1, c2, crit):
    """Two designs with scripted constraint values g1/g2 (None = unconstrained problem) and costs c1/c2."""
    from artap.algorithm import DummyAlgorithm
    from artap.individual import Individual
    from artap.operators import ParetoDominance
    from .c_support import make_problem
    table_g = {1.0: g1, 2.0: g2}
    table_c = {1.0: c1, 2.0: c2}
    problem = make_problem(n_params=1, bounds=[[0.0, 5.0]], criteria=[crit], f=lambda v: [table_c[v[0]]],
                           g=(None if g1 is None else (lambda x: list(table_g[x[0]]))))
    alg = DummyAlgorithm(problem)
    a, b = Individual([1.0]), Individual([2.0])
    desc = "g=%r/%r costs=%r/%r criteria=%s" % (g1, g2, c1, c2, crit)
    try:
        alg.evaluate([a, b])
    except Exception as e:
        return [("C05:constraints:exception:%s" % type(e).__name__, "evaluate raised %r; %s" % (e, desc))]
    out = []
    ma, mb = a.costs_signed[-1], b.costs_signed[-1]
    if len(problem.h_log) != 2:
        out.append(("C05:constraints:calls", "%d objective calls; %s" % (len(problem.h_log), desc)))
    if g1 is None:
        if ma != mb:
            out.append(("C05:constraints:unconstrained-markers-differ", "markers %r/%r; %s" % (ma, mb, desc)))
        return out
    sa, sb = sat(g1), sat(g2)
    if sa == sb:
        if ma != mb:
            out.append(("C05:constraints:same-class-markers-differ", "markers %r/%r; %s" % (ma, mb, desc)))
    else:
        v = ParetoDominance().compare(a.costs_signed, b.costs_signed)
        want = 1 if sa else 2
        if v != want or ref_dominance(a.costs_signed, b.costs_signed) != want:
            zero = any(x == 0.0 for x in (g1 if not sa else g2))
            out.append(("C05:constraints:violating-not-ranked-behind:%s" % ("g=0" if zero else "g>0"),
                        "comparator verdict %r, the satisfying design must win (%d); signed %r / %r; %s" % (v, want, a.costs_signed, b.costs_signed, desc)))
    return out


def check_constraints_retry(start_feasible, draw, fails):
    """The marker must belong to the finally stored vector also when the design was re-sampled after a failure."""
    from artap.algorithm import DummyAlgorithm
    from artap.individual import Individual
    from ..core import shim as shim_mod
    from .c_support import make_problem
    st = {"n": 0}

    def before(problem, individual):
        st["n"] += 1
        if st["n"] <= fails:
            raise (TimeoutError if st["n"] % 2 else RuntimeError)("transient")
    problem = make_problem(n_params=1, bounds=[[0.0, 1.0]], criteria=["minimize"], f=lambda v: [v[0] + 1.0],
                           g=lambda x: [x[0] - 0.5], before=before)
    alg = DummyAlgorithm(problem)
    ind = Individual([0.25 if start_feasible else 0.75])

    class Forced:
        def force_unit(self, b):
            return draw

        def choose(self, kind, n, price=1, label=None):
            return 0
    sh = shim_mod.install()
    sh.reset(5, Forced())
    desc = "start %s, re-sampled coordinate %r after %d transient failures" % ("feasible" if start_feasible else "violating", draw, fails)
    try:
        alg.evaluate([ind])
    except Exception as e:
        return [("C05:constraints-retry:exception:%s" % type(e).__name__, "evaluate raised %r; %s" % (e, desc))]
    finally:
        sh.ctx = None
    want_marker = not (ind.vector[0] - 0.5 < 0)
    out = []
    if bool(ind.costs_signed[-1]) != want_marker:
        out.append(("C05:constraints-retry:marker-not-of-final-vector:%s" % ("satisfying-marked-violating" if not want_marker else "violating-marked-satisfying"),
                    "final vector %r has g=%r but marker %r; %s" % (ind.vector, ind.vector[0] - 0.5, ind.costs_signed[-1], desc)))
    if list(ind.costs) != [ind.vector[0] + 1.0]:
        out.append(("C05:constraints-retry:costs", "costs %r for vector %r; %s" % (ind.costs, ind.vector, desc)))
    return out


# ---------------------------------------------------------------- (D) sweeps
def check_sweep(kind, arg):
    from artap.algorithm_sweep import SweepAlgorithm
    from artap.individual import Individual
    from artap.operators import CustomGenerator, UniformGenerator, FullFactorGenerator
    from .c_support import make_problem, reset_ids
    reset_ids()
    nparams = arg.get("nparams", 2)
    problem = make_problem(n_params=nparams, bounds=[[0.0, 1.0], [-2.0, 2.0], [1.0, 3.0]][:nparams],
                           f=lambda v: [sum(v) + 0.5])
    if kind == "custom":
        gen = CustomGenerator(problem.parameters)
        gen.init([list(v) for v in arg["vectors"]])
    elif kind == "uniform":
        gen = UniformGenerator(problem.parameters)
        gen.init(arg["k"])
    else:
        gen = FullFactorGenerator(problem.parameters)
        gen.init(arg["center"])
    exp = [tuple(v) for v in gen.generate()]
    alg = SweepAlgorithm(problem, generator=gen)
    for name, value in (arg.get("options") or {}).items():
        # options every algorithm inherits; a sweep evaluates the generator's designs whatever they say
        alg.options[name] = value
    desc = "sweep %s %r" % (kind, arg)
    try:
        if (arg.get("options") or {}).get("max_processes", 1) > 1:
            from ..core.sched import default_parallel
            with default_parallel():
                alg.run()
        else:
            alg.run()
    except Exception as e:
        return [("C05:sweep:exception:%s" % type(e).__name__, "run raised %r; %s" % (e, desc))]
    got = [c[1] for c in problem.h_log]
    out = []
    if got != exp:
        kind2 = "count" if len(got) != len(exp) else ("order" if sorted(got) == sorted(exp) else "vectors")
        out.append(("C05:sweep:evaluated-designs:%s" % kind2, "objective saw %r, generator produced %r; %s" % (got, exp, desc)))
    if [tuple(i.vector) for i in problem.individuals] != exp:
        out.append(("C05:sweep:recorded-designs", "recorded %r; %s" % ([tuple(i.vector) for i in problem.individuals], desc)))
    for i in problem.individuals:
        if i.state != Individual.State.EVALUATED or list(i.costs) != [sum(i.vector) + 0.5]:
            out.append(("C05:sweep:costs", "design %r costs %r state %r; %s" % (i.vector, i.costs, i.state, desc)))
            break
    return out


# ---------------------------------------------------------------- (E) scalar bridge
def fq(v):
    return [sum((x - 0.3) ** 2 for x in v) + 0.123456789]


def fq_max(v):
    """Concave twin for maximised runs, so the optimiser stays in a bounded region."""
    return [5.0 - sum((x - 0.3) ** 2 for x in v) + 0.123456789]


def check_scalar(lib, method, crit, start, seed):
    from .c_support import make_problem, reset_ids
    reset_ids()
    n = len(start)
    fq = fq_max if crit == "maximize" else globals()["fq"]
    problem = make_problem(n_params=n, bounds=[[-3.0, 3.0]] * n, criteria=[crit], f=fq,
                           param_extra=[{"initial_value": s} for s in start])
    desc = "%s %s criteria=%s start=%r" % (lib, method, crit, start)
    if lib == "scipy":
        from artap.algorithm_scipy import ScipyOpt
        alg = ScipyOpt(problem)
        alg.options['algorithm'] = method
    else:
        import nlopt
        from artap.algorithm_nlopt import NLopt
        nlopt.srand(1000 + seed)
        alg = NLopt(problem)
        alg.options['algorithm'] = getattr(nlopt, method)
    alg.options['n_iterations'] = 12
    alg.options['verbose_level'] = 0
    calls = []
    inner = alg.evaluator.evaluate_scalar

    def spy(x):
        xs = [float(v) for v in x]
        n_before = len(problem.individuals)
        r = inner(x)
        calls.append((xs, r, n_before, len(problem.individuals)))
        return r
    alg.evaluator.evaluate_scalar = spy
    try:
        alg.run()
    except Exception as e:
        if not calls:
            return "skip", [], "%s raised %r before any query" % (desc, e)
        return "ok", [("C05:scalar:%s:exception:%s" % (lib, type(e).__name__), "run raised %r after %d queries; %s" % (e, len(calls), desc))], None
    out = []
    s = sign_for(crit)
    if len(problem.individuals) != len(calls):
        out.append(("C05:scalar:%s:recorded-count" % lib, "%d individuals recorded for %d queries; %s" % (len(problem.individuals), len(calls), desc)))
    if len(problem.h_log) != len(calls):
        out.append(("C05:scalar:%s:objective-calls" % lib, "%d objective calls for %d queries; %s" % (len(problem.h_log), len(calls), desc)))
    for k, (xs, r, nb, na) in enumerate(calls):
        if k >= len(problem.individuals):
            break
        ind = problem.individuals[k]
        true = fq(xs)[0]
        # derivative-based NLopt methods receive no gradient from artap and may query NaN points: NaN matches NaN here
        same = lambda a, b: (a == b) or (a != a and b != b)
        if any(v != v for v in xs):
            col_nan = [float(v) for v in ind.vector]
            if len(col_nan) != len(xs) or not all(same(a, b) for a, b in zip(col_nan, xs)):
                out.append(("C05:scalar:%s:recorded-vector" % lib, "query %d at %r recorded as %r; %s" % (k, xs, ind.vector, desc)))
                break
            if not ind.costs or not same(float(ind.costs[0]), float(true)) or not same(float(r), float(s * true)):
                out.append(("C05:scalar:%s:recorded-cost" % lib, "query %d at %r: recorded cost %r, returned %r, true %r; %s" % (k, xs, ind.costs, r, true, desc)))
                break
            continue
        if [float(v) for v in ind.vector] != xs:
            out.append(("C05:scalar:%s:recorded-vector" % lib, "query %d at %r recorded as %r; %s" % (k, xs, ind.vector, desc)))
            break
        if not ind.costs or ind.costs[0] != true:
            out.append(("C05:scalar:%s:recorded-cost" % lib, "query %d at %r: recorded cost %r, true %r; %s" % (k, xs, ind.costs, true, desc)))
            break
        if not rounded_ok(float(r), s, true, 7):
            out.append(("C05:scalar:%s:returned-value:%s" % (lib, crit), "query %d at %r: optimiser received %r, signed cost is %r; %s" % (k, xs, r, s * true, desc)))
            break
    return "ok", out, len(calls)


SCIPY_METHODS = ['Nelder-Mead', 'Powell', 'CG', 'BFGS', 'L-BFGS-B', 'TNC', 'COBYLA', 'SLSQP']
NLOPT_METHODS = ['GN_DIRECT_L', 'GN_DIRECT_L_RAND', 'GN_MLSL', 'GN_CRS2_LM', 'GN_ISRES', 'GN_ESCH', 'LN_BOBYQA', 'LN_COBYLA',
                 'LN_NELDERMEAD', 'LN_SBPLX', 'LN_PRAXIS', 'LN_AUGLAG_EQ', 'LD_MMA']


def _shard(shard, col: Collector):
    kind = shard[0]

    def rec(sub, case, viol, nontrivial=True):
        col.case()
        if nontrivial:
            col.nontrivial((sub, repr(case)))
        for key, msg in viol:
            col.violation(key, sub, msg, case)
    if kind == "batch":
        _, parallel = shard
        for n in (1, 2, 3):
            for mix in itertools.product((False, True), repeat=n):
                for repeats in (1, 2, 3):
                    for crit in ("minimize", "maximize"):
                        rec("batch", {"n": n, "mix": mix, "repeats": repeats, "crit": crit, "parallel": parallel},
                            check_batch(n, mix, repeats, crit, parallel), not all(mix))
                        if n >= 2 and repeats == 1:
                            rec("batch", {"n": n, "mix": mix, "repeats": repeats, "crit": crit, "parallel": parallel, "same_ids": True},
                                check_batch(n, mix, repeats, crit, parallel, True), not all(mix))
                        if any(mix) and repeats <= 2:
                            rec("batch", {"n": n, "mix": mix, "repeats": repeats, "crit": crit, "parallel": parallel, "loaded": True},
                                check_batch(n, mix, repeats, crit, parallel, False, True), True)
        # batches far larger than the enumerated ones
        for n in (31, 32, 33, 63, 64, 65, 100, 128, 129, 257, 513, 600, 1000, 1025):
            for pat in (2, 3, 0):
                mix = tuple((i % pat == 0) if pat else False for i in range(n))
                for crit in ("minimize", "maximize"):
                    rec("batch", {"n": n, "mix_every": pat, "repeats": 2, "crit": crit, "parallel": parallel},
                        [(k, m[:400]) for k, m in check_batch(n, mix, 2, crit, parallel)], True)
                rec("batch", {"n": n, "mix_every": pat, "repeats": 1, "crit": "minimize", "parallel": parallel, "loaded": True},
                    [(k, m[:400]) for k, m in check_batch(n, mix, 1, "minimize", parallel, False, bool(pat))], True)
        col.sample({"kind": "batch", "n": 3, "already_evaluated": [False, True, False], "repeats": 2, "parallel": parallel}, 1)
    elif kind == "objvalues":
        for kind_ in ("list", "ndarray", "tuple", "npscalar-list", "zero-list", "nonfinite", "surplus", "near", "warns"):
            for parallel in (False, True):
                for via in ("batch", "sweep"):
                    rec("objvalues", {"kind": kind_, "parallel": parallel, "via": via}, check_objective_values(kind_, parallel, via), True)
        col.sample({"kind": "what the objective returns", "kinds": ["ndarray", "tuple", "zero", "nonfinite", "surplus", "near-identical designs"]}, 1)
    elif kind == "signed":
        _, m = shard
        crits = ("minimize", "maximize", None)
        for cs in itertools.product(COSTVALS, repeat=m):
            for cr in itertools.product(crits, repeat=m):
                for prec in (7, 3):
                    rec("signed", {"costs": cs, "crits": cr, "prec": prec}, check_signed(cs, cr, prec))
        col.sample({"kind": "signed", "costs": [0.123456789, -5e-08][:m], "criteria": ["maximize", None][:m], "precision": 7}, 1)
    elif kind == "constraints":
        for crit in ("minimize", "maximize"):
            for c1, c2 in ((1.0, 2.0), (2.0, 1.0), (1.0, 1.0)):
                rec("constraints", {"g1": None, "g2": None, "c1": c1, "c2": c2, "crit": crit}, check_constraints(None, None, c1, c2, crit))
                for g1 in GLISTS:
                    for g2 in GLISTS:
                        rec("constraints", {"g1": g1, "g2": g2, "c1": c1, "c2": c2, "crit": crit}, check_constraints(g1, g2, c1, c2, crit))
        for start_feasible in (True, False):
            for draw in (0.1, 0.4, 0.6, 0.9):
                for fails in (0, 1, 2, 4):
                    rec("cretry", {"start_feasible": start_feasible, "draw": draw, "fails": fails},
                        check_constraints_retry(start_feasible, draw, fails), fails > 0)
        col.sample({"kind": "constraints", "g1": [-1.0, -2.0], "g2": [0.0], "costs": [2.0, 1.0]}, 1)
    elif kind == "sweep":
        lat = [(0.0, 0.0), (1.0, -2.0), (0.5, 2.0)]
        for n in (1, 2, 3):
            for vs in itertools.product(lat, repeat=n):
                rec("sweep", {"kind": "custom", "arg": {"vectors": vs}}, check_sweep("custom", {"vectors": vs}))
        for opts in ({"max_population_size": 2, "max_population_number": 3}, {"max_population_size": 1, "max_population_number": 1},
                     {"max_population_size": 3, "max_population_number": 2, "max_processes": 2}, {"max_population_number": 1}, {"max_population_size": 4}):
            for n in (1, 2, 5, 7, 9):
                vs = tuple(lat[i % 3] if i < 3 else (0.1 * i, -0.2 * i) for i in range(n))
                rec("sweep", {"kind": "custom", "arg": {"vectors": vs, "options": opts}}, check_sweep("custom", {"vectors": vs, "options": opts}))
            rec("sweep", {"kind": "uniform", "arg": {"k": 3, "nparams": 3, "options": opts}}, check_sweep("uniform", {"k": 3, "nparams": 3, "options": opts}))
        for nparams in (1, 2, 3):
            for k in (2, 3):
                rec("sweep", {"kind": "uniform", "arg": {"k": k, "nparams": nparams}}, check_sweep("uniform", {"k": k, "nparams": nparams}))
            for center in (False, True):
                rec("sweep", {"kind": "ff", "arg": {"center": center, "nparams": nparams}}, check_sweep("ff", {"center": center, "nparams": nparams}))
        col.sample({"kind": "sweep", "generator": "custom", "vectors": [lat[1], lat[1], lat[0]]}, 1)
    elif kind == "scalar":
        _, lib, method, seed = shard
        for crit in ("minimize", "maximize"):
            for start in ((0.5,), (2.5, 1.5)):
                status, viol, info = check_scalar(lib, method, crit, start, seed)
                if status == "skip":
                    col.notes.append("skipped: " + str(info))
                    col.count("scalar_skipped")
                    continue
                col.count("scalar_queries", info if isinstance(info, int) else 0)
                rec("scalar", {"lib": lib, "method": method, "crit": crit, "start": start, "seed": seed}, viol)
        col.sample({"kind": "scalar-bridge", "library": lib, "method": method}, 1)


def replay(sub, case):
    if sub == "batch" and "mix_every" in case:
        pat = case["mix_every"]
        mix = tuple((i % pat == 0) if pat else False for i in range(case["n"]))
        return check_batch(case["n"], mix, case["repeats"], case["crit"], case["parallel"], False, case.get("loaded", False))
    if sub == "batch":
        return check_batch(case["n"], tuple(case["mix"]), case["repeats"], case["crit"], case["parallel"], case.get("same_ids", False), case.get("loaded", False))
    if sub == "objvalues":
        return check_objective_values(case["kind"], case["parallel"], case["via"])
    if sub == "signed":
        return check_signed(tuple(case["costs"]), tuple(case["crits"]), case["prec"])
    if sub == "constraints":
        return check_constraints(case["g1"], case["g2"], case["c1"], case["c2"], case["crit"])
    if sub == "cretry":
        return check_constraints_retry(case["start_feasible"], case["draw"], case["fails"])
    if sub == "sweep":
        arg = dict(case["arg"])
        if "vectors" in arg:
            arg["vectors"] = [tuple(v) for v in arg["vectors"]]
        return check_sweep(case["kind"], arg)
    if sub == "scalar":
        return check_scalar(case["lib"], case["method"], case["crit"], tuple(case["start"]), case["seed"])[1]
    raise ValueError(sub)


def run(tier, seed):
    import artap.algorithm_scipy, artap.algorithm_nlopt, artap.algorithm_sweep  # noqa: F401,E401
    shards = [("batch", False), ("batch", True), ("objvalues",), ("signed", 1), ("signed", 2), ("constraints",), ("sweep",)]
    shards += [("scalar", "scipy", m, seed) for m in SCIPY_METHODS]
    shards += [("scalar", "nlopt", m, seed) for m in NLOPT_METHODS]
    col = run_shards(_shard, shards)
    return col, {"exhaustive": True, "scipy_methods": SCIPY_METHODS, "nlopt_methods": NLOPT_METHODS,
                 "cost_values": [repr(c) for c in COSTVALS]}


RULE += (' Batches containing evaluated designs as a store hands them out (to_dict / JSON / from_dict), serial and parallel; sweeps of 1..9 designs under five settings of the inherited max_population_size / max_population_number / max_processes options.')

RULE += (' Beyond small: batches of 31..1025 designs, serial and parallel, with loaded designs; objectives that return numpy arrays, tuples, zeros, non-finite values, surplus outputs, and designs 3e-9 apart, as a batch and as a sweep, serial and parallel.')
