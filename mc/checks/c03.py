"""C03 -- environmental selection: rank first, then crowding, no duplicates; crowding formula; binary tournament.

Bounded exhaustive: every ranked population over a vector lattice x every k (truncate); every front over tie-free
permutation columns and over tie-rich columns (crowding); every population x every ordered candidate pair x both coin
results (tournament).
"""
import itertools
import math

from ..core.common import Collector, run_shards
from ..core.refmodels import ref_dominance, ref_crowding
from ..core import shim as shim_mod

PROPERTY = "C03"
LEVEL = "exploration"
RULE = ("truncate: every sequence of n designs over {-2,-1,0,1}^2 (costs a fixed function of the vector; two functions, one "
        "with colliding costs) ranked by the real sorter, every k=1..n+1 (n=5, 6 over a five-vector lattice); crowding: fronts of 7-12 members on ladders and rotations; every front whose objective columns are "
        "permutations of uneven tie-free values (n<=5/6, m<=3) and every front over {0,1,2}^n columns (ties, zero range); "
        "tournament: every population n<=3/4 over V3^2 x {F,T}, ranked, or all-equal front numbers without / with crowding distances (computed over the whole set, ascending, descending), every ordered candidate "
        "pair, both coin results. Non-trivial = population with >=2 distinct designs; distinct = distinct case tuples.")
ASSUMPTIONS = ["front numbers are those assigned by the real sorter (checked by C02)",
               "crowding exact formula only claimed on tie-free fronts, as in the statement"]

LAT = (-2.0, -1.0, 0.0, 1.0)
V3 = (0.0, 1.0, 2.0)
UNEVEN = (0.0, 1.0, 3.0, 7.0, 8.0, 20.0)


def cost_fn(name, v):
    name = name.split("@")[0]
    if name == "id":
        return (v[0], v[1], True)
    if name == "abs":      # distinct designs with colliding costs
        return (abs(v[0]), abs(v[1]), True)
    raise ValueError(name)


def build(vectors, fn):
    from artap.individual import Individual
    from .c02 import selector
    pop = []
    for j, v in enumerate(vectors):
        if "@" in fn:
            # a pool that mixes the carrier classes of the framework (merged runs, individuals loaded from a store)
            from .c20 import make_as, CLASSES
            ind = make_as(CLASSES[(j + int(fn.split("@")[1])) % len(CLASSES)], v)
        else:
            ind = Individual(list(v))
        ind.costs_signed = list(cost_fn(fn, v))
        pop.append(ind)
    selector().fast_nondominated_sorting(pop)
    return pop


def check_truncate(vectors, fn, k):
    from artap.operators import nondominated_truncate
    out = []
    try:
        pop = build(vectors, fn)
    except Exception as e:
        return [("C03:truncate:ranking-exception:%s" % type(e).__name__, "ranking %r (%s) raised %r" % (vectors, fn, e))]
    if any(p.features.get('front_number') is None for p in pop):
        return [("C03:truncate:unranked-member", "after sorting %r (%s) the front numbers are %r" % (vectors, fn, [p.features.get('front_number') for p in pop]))]
    front = {tuple(p.vector): p.features['front_number'] for p in pop}
    cd = {id(p): p.features['crowding_distance'] for p in pop}
    try:
        res = nondominated_truncate(list(pop), k)
    except Exception as e:
        return [("C03:truncate:exception:%s" % type(e).__name__, "truncate(%r, %d) raised %r" % (vectors, k, e))]
    designs = list(dict.fromkeys(tuple(v) for v in vectors))
    desc = "vectors %r costs=%s k=%d -> %r" % (vectors, fn, k, [tuple(r.vector) for r in res])
    if any(not any(r is p for p in pop) for r in res):
        out.append(("C03:truncate:foreign-member", "result holds an individual not in the population: " + desc))
        return out
    kept = [tuple(r.vector) for r in res]
    if len(res) != min(k, len(designs)):
        out.append(("C03:truncate:size:%s" % ("too-few" if len(res) < min(k, len(designs)) else "too-many"),
                    "expected %d survivors: %s" % (min(k, len(designs)), desc)))
    if len(set(kept)) != len(kept):
        out.append(("C03:truncate:duplicate-design", "a design is returned twice: " + desc))
    dropped = [d for d in designs if d not in kept]
    if kept and dropped and max(front[d] for d in kept) > min(front[d] for d in dropped):
        out.append(("C03:truncate:rank-order", "a survivor has a worse front number than a discarded design: %s fronts %r" % (desc, front)))
    if len(designs) == len(vectors) and kept and dropped:
        # crowding clause on the front that is cut
        for f in set(front.values()):
            kf = [cd[id(p)] for p in pop if front[tuple(p.vector)] == f and tuple(p.vector) in kept]
            df = [cd[id(p)] for p in pop if front[tuple(p.vector)] == f and tuple(p.vector) in dropped]
            if kf and df and max(df) > min(kf):
                out.append(("C03:truncate:crowding-order",
                            "front %d is cut but a discarded member has larger crowding distance: %s cd kept %r dropped %r" % (f, desc, kf, df)))
    return out


def check_crowding(columns, exact):
    """columns: m tuples of length n (objective values per member)."""
    from artap.individual import Individual
    from artap.operators import crowding_distance
    n, m = len(columns[0]), len(columns)
    inds = []
    for i in range(n):
        ind = Individual([float(i)])
        ind.costs_signed = [col[i] for col in columns] + [True]
        inds.append(ind)
    front = list(inds)
    try:
        crowding_distance(front)
    except Exception as e:
        return [("C03:crowding:exception:%s" % type(e).__name__, "crowding_distance on %r raised %r" % (columns, e))]
    got = [i.features.get('crowding_distance') for i in inds]
    out = []
    desc = "columns %r -> %r" % (columns, got)
    if any(g is None for g in got):
        return [("C03:crowding:unset", desc)]
    if sorted(id(x) for x in front) != sorted(id(x) for x in inds):
        out.append(("C03:crowding:front-changed", "the front list lost or gained members: " + desc))
    if n <= 2:
        if any(g != math.inf for g in got):
            out.append(("C03:crowding:small-front-not-inf", desc))
        return out
    if exact:
        exp = ref_crowding([tuple(col[i] for col in columns) for i in range(n)])
        for g, e in zip(got, exp):
            if (g == math.inf) != (e == math.inf) or (e != math.inf and abs(g - e) > 1e-12 * max(1.0, abs(e))):
                out.append(("C03:crowding:formula:n=%d:m=%d" % (n, m), desc + " expected %r" % (exp,)))
                break
        # history: the same Individual objects measured again -- the same front twice, a sub-front first and then the whole
        # front (a former boundary member becomes interior), the whole front and then a sub-front
        if not out and n <= 6:
            for label, pick in (("same-front-twice", (0, 0)), ("sub-front-then-whole", (1, 0)), ("whole-then-sub-front", (0, 1))):
                again = []
                for i in range(n):
                    ind = Individual([float(i)])
                    ind.costs_signed = [col[i] for col in columns] + [True]
                    again.append(ind)
                try:
                    for start in pick:
                        crowding_distance(list(again[start:]))
                except Exception as e:
                    out.append(("C03:crowding:measured-again:exception:%s" % type(e).__name__, "%s on %r raised %r" % (label, columns, e)))
                    break
                last = again[pick[-1]:]
                got2 = [i.features.get('crowding_distance') for i in last]
                exp2 = ([math.inf] * len(last)) if len(last) <= 2 else ref_crowding([tuple(x.costs_signed[:-1]) for x in last])
                bad = any(g is None or (g == math.inf) != (e == math.inf) or (e != math.inf and abs(g - e) > 1e-12 * max(1.0, abs(e))) for g, e in zip(got2, exp2))
                if bad:
                    out.append(("C03:crowding:measured-again:%s" % label, "columns %r, %s: the members of the front measured last carry %r, formula %r" % (columns, label, got2, exp2)))
                    break
    else:
        if any(not (g >= 0) for g in got):
            out.append(("C03:crowding:negative", desc))
        if any(g != math.inf and g > m + 1e-12 for g in got):
            out.append(("C03:crowding:exceeds-m", desc))
        for d, col in enumerate(columns):
            lo, hi = min(col), max(col)
            if not any(got[i] == math.inf for i in range(n) if col[i] == lo):
                out.append(("C03:crowding:min-holder-not-inf", "objective %d: %s" % (d, desc)))
            if not any(got[i] == math.inf for i in range(n) if col[i] == hi):
                out.append(("C03:crowding:max-holder-not-inf", "objective %d: %s" % (d, desc)))
    return out


class _Forced:
    """Minimal context for the shim: forces the pick indices, no exploration."""

    def __init__(self, picks):
        self.picks = list(picks)
        self.asked = []

    def force_pick(self, label, n):
        self.asked.append((label, n))
        want = self.picks.pop(0) if self.picks else 0
        return want % n

    def choose(self, kind, n, price=1, label=None):
        return 0


def check_tournament(costs, ranked, pair, coin):
    """costs: list of signed-cost tuples; pair: (i, j) ordered candidate indices; coin: 0/1."""
    from artap.individual import Individual
    from artap.operators import TournamentSelector
    from .c02 import selector
    sh = shim_mod.install()
    pop = []
    for c in costs:
        ind = Individual([0.0])
        ind.costs_signed = list(c)
        pop.append(ind)
    if ranked is True:
        selector().fast_nondominated_sorting(pop)
    else:
        for k, p in enumerate(pop):
            p.features['front_number'] = 0
        if ranked == "cd-whole-set":        # PSOGA: crowding distance computed over the whole swarm, front numbers all equal
            from artap.operators import crowding_distance
            crowding_distance(list(pop))
        elif ranked == "cd-ascending":      # arbitrary feature values: the later (possibly dominated) member looks less crowded
            for k, p in enumerate(pop):
                p.features['crowding_distance'] = float(k)
        elif ranked == "cd-descending":
            for k, p in enumerate(pop):
                p.features['crowding_distance'] = float(len(pop) - k)
    n = len(pop)
    i, j = pair
    idx = i * (n - 1) + (j if j < i else j - 1) if n > 1 else 0
    ctx = _Forced([idx, coin])
    sh.reset(0, ctx)
    try:
        res = TournamentSelector([]).select(pop)
    except Exception as e:
        return [("C03:tournament:exception:%s" % type(e).__name__, "select on %r raised %r" % (costs, e))]
    finally:
        sh.ctx = None
    out = []
    desc = "costs %r fronts %r candidates %r coin %d -> member %r" % (
        costs, [p.features['front_number'] for p in pop], pair, coin,
        next((k for k, p in enumerate(pop) if p is res), None))
    if not any(res is p for p in pop):
        return [("C03:tournament:not-a-member", desc)]
    if n == 1:
        return out
    if ctx.asked[:1] != [("sample2", n * (n - 1))]:
        return out  # candidates were not drawn through sample(pop, 2): cannot attribute candidates, judge membership only
    a, b = pop[i], pop[j]
    loser = None
    fa, fb = a.features['front_number'], b.features['front_number']
    if fa < fb:
        loser = b
    elif fb < fa:
        loser = a
    else:
        d = ref_dominance(costs[i], costs[j])
        loser = b if d == 1 else a if d == 2 else None
    if loser is not None and res is loser:
        out.append(("C03:tournament:returned-loser:%s" % ("front" if fa != fb else "dominated"), desc))
    if res is not a and res is not b:
        out.append(("C03:tournament:not-a-candidate", desc))
    return out


def check_truncate_gaps(vectors, drop_front, mode, k):
    """A ranked population from which one whole front has been removed (a filtered subset), or whose front numbers are the
    uniform 0 / -1 of unranked particles: truncation is by the front numbers and crowding distances the members carry."""
    from artap.operators import nondominated_truncate
    pop = build(vectors, "id")
    if mode == "drop":
        pop = [p for p in pop if p.features['front_number'] != drop_front]
    elif mode == "shift":
        for p in pop:
            p.features['front_number'] += 3
    else:
        for p in pop:
            p.features['front_number'] = 0 if mode == "zero" else -1
    if not pop:
        return []
    front = {tuple(p.vector): p.features['front_number'] for p in pop}
    designs = list(dict.fromkeys(tuple(p.vector) for p in pop))
    try:
        res = nondominated_truncate(list(pop), k)
    except Exception as e:
        return [("C03:truncate:gaps:exception:%s" % type(e).__name__, "truncate raised %r on front numbers %r" % (e, sorted(front.values())))]
    kept = [tuple(r.vector) for r in res]
    desc = "vectors %r, front numbers %r (%s), k=%d -> %r" % ([tuple(p.vector) for p in pop], [p.features['front_number'] for p in pop], mode, k, kept)
    out = []
    if len(res) != min(k, len(designs)):
        out.append(("C03:truncate:size:front-numbers-not-contiguous:%s" % ("too-few" if len(res) < min(k, len(designs)) else "too-many"), "expected %d survivors: %s" % (min(k, len(designs)), desc)))
    if len(set(kept)) != len(kept):
        out.append(("C03:truncate:duplicate-design", desc))
    dropped = [d for d in designs if d not in kept]
    if kept and dropped and max(front[d] for d in kept) > min(front[d] for d in dropped):
        out.append(("C03:truncate:rank-order:front-numbers-not-contiguous", desc))
    return out


def large_columns(n):
    def column(mult, off):
        step = mult
        while math.gcd(step, n) != 1:
            step += 1
        return tuple(float((x * step + off) % n) + 0.125 * ((x * 7) % 5) / 5.0 for x in range(n))
    c1, c2, c3 = column(1, 0), column(37, 3), column(11, 5)
    return [[c1], [c1, c2], [c2, c1[::-1]], [c1, c2, c3]]


def _shard(shard, col: Collector):
    kind = shard[0]
    if kind == "trunc":
        _, fn, n, fixed = shard
        vecs = list(itertools.product(LAT, repeat=2)) if n <= 4 else list(itertools.product((-2.0, -1.0), repeat=2)) + [(0.0, 1.0)]
        for rest in itertools.product(vecs, repeat=n - len(fixed)):
            vs = list(fixed) + list(rest)
            nd = len(set(vs))
            for k in range(1, n + 2):
                col.case()
                if nd >= 2:
                    col.nontrivial(("t", fn, tuple(vs), k))
                for key, msg in check_truncate(vs, fn, k):
                    col.violation(key, "trunc", msg, {"vectors": vs, "fn": fn, "k": k})
        col.sample({"kind": "truncate", "vectors": list(fixed) + [vecs[-1]] * (n - len(fixed)), "costs": fn, "k": max(1, n - 1)}, 1)
    elif kind == "trunc_big":
        # populations far beyond the enumerated sizes (structured families of c02), cut at sizes around n/2 and n
        from .c02 import big_population
        _, n = shard
        for family in ("chain", "antichain", "grid", "dups", "twolevel", "lcg"):
            if n >= 1000 and family in ("grid", "twolevel", "lcg"):
                continue
            vs = [(c[0], c[1]) for c in big_population(family, n)]
            for k in sorted(set([1, 2, n // 2, n // 2 + 1, n - 1, n, n + 1])):
                col.case()
                col.nontrivial(("tbig", family, n, k))
                col.count("large_truncations")
                for key, msg in check_truncate(vs, "id", k):
                    col.violation(key + ":large-population:" + family, "trunc_big", msg[:500], {"family": family, "n": n, "k": k})
        col.sample({"kind": "truncate large structured populations", "n": n}, 1)
    elif kind == "crowd_big":
        # larger fronts, two objectives: one column ascending, the other every rotation / reversal of an uneven ladder
        _, n = shard
        ladder = tuple(float(x * x + x) for x in range(n))
        cols2 = [ladder[i:] + ladder[:i] for i in range(n)] + [tuple(reversed(ladder))]
        for c2 in cols2:
            for c1 in (ladder, tuple(reversed(ladder))):
                col.case()
                col.nontrivial(("cb", c1, c2))
                for key, msg in check_crowding([c1, c2], True):
                    col.violation(key, "crowd", msg, {"columns": [c1, c2], "exact": True})
        col.sample({"kind": "crowding-exact large front", "n": n}, 1)
    elif kind == "crowd_scale":
        # the formula is scale invariant: the same ladders at scales 1e-17 .. 1e17 and shifted far from zero
        for n in (3, 4, 5):
            for perm in itertools.permutations(UNEVEN[:n]):
                for sc, sh in ((1e-17, 0.0), (1e-300, 0.0), (1e17, 0.0), (1.0, 1e6), (1e-9, 1.0)):
                    c1 = tuple(sh + sc * v for v in UNEVEN[:n])
                    c2 = tuple(sh + sc * v for v in perm)
                    if len(set(c1)) < n or len(set(c2)) < n:
                        continue
                    col.case()
                    col.nontrivial(("cs", c1, c2))
                    for key, msg in check_crowding([c1, c2], True):
                        col.violation(key + ":scaled", "crowd", msg, {"columns": [c1, c2], "exact": True})
        col.sample({"kind": "crowding at scale 1e-17", "columns": [[0.0, 1e-17, 3e-17], [3e-17, 0.0, 1e-17]]}, 1)
    elif kind == "trunc_moved":
        # individuals that have been hashed (by an earlier truncation) and were then moved onto another design in place
        from artap.operators import nondominated_truncate
        vecs = list(itertools.product((-2.0, -1.0, 0.0), repeat=2))
        for a in vecs:
            for b in vecs:
                for c in vecs:
                    if len({a, b, c}) < 3:
                        continue
                    for how in ("in_place", "reassign"):
                        col.case()
                        col.nontrivial(("tm", a, b, c, how))
                        pop = build([a, b, c], "id")
                        nondominated_truncate(list(pop), 3)
                        if how == "in_place":
                            pop[0].vector[0], pop[0].vector[1] = b
                        else:
                            pop[0].vector = list(b)
                        pop[0].costs_signed = list(pop[1].costs_signed)
                        from .c02 import selector
                        selector().fast_nondominated_sorting(pop)
                        res = nondominated_truncate(list(pop), 3)
                        kept = [tuple(r.vector) for r in res]
                        if len(kept) != 2 or len(set(kept)) != 2:
                            col.violation("C03:truncate:moved-individual-not-deduplicated", "tmoved",
                                          "designs %r, %r, %r; the first was moved %s onto the second after a truncation: truncate returned %r" % (a, b, c, how, kept),
                                          {"a": a, "b": b, "c": c, "how": how})
        col.sample({"kind": "truncate after an individual moved onto another design", "designs": [vecs[0], vecs[1], vecs[2]]}, 1)
    elif kind == "trunc_gaps":
        vecs = list(itertools.product(LAT, repeat=2))
        for n in (2, 3, 4):
            for vs in itertools.product(vecs[::2] if n == 4 else vecs, repeat=n):
                for mode, drop in (("drop", 1), ("drop", 2), ("shift", 0), ("zero", 0), ("minus", 0)):
                    for k in range(1, n + 1):
                        col.case()
                        col.nontrivial(("tg", vs, mode, drop, k))
                        for key, msg in check_truncate_gaps(list(vs), drop, mode, k):
                            col.violation(key, "trunc_gaps", msg, {"vectors": vs, "drop": drop, "mode": mode, "k": k})
        col.sample({"kind": "truncate with gaps in the front numbers"}, 1)
    elif kind == "crowd_large":
        # large tie-free fronts, 1-3 objectives: exact formula
        _, n = shard
        for cols in large_columns(n):
            col.case()
            col.nontrivial(("cl", n, len(cols)))
            for key, msg in check_crowding(list(cols), True):
                col.violation(key + ":large-front", "crowd_large", msg[:400], {"n": n, "m": len(cols)})
        col.sample({"kind": "crowding on large fronts", "n": n}, 1)
    elif kind == "crowd_exact":
        _, n, m, first = shard
        vals = UNEVEN[:n] if n <= len(UNEVEN) else first
        perms = list(itertools.permutations(vals)) if m > 1 else [()]
        for rest in itertools.product(perms, repeat=m - 1):
            cols = [first] + list(rest)
            col.case()
            col.nontrivial(("ce", tuple(cols)))
            for key, msg in check_crowding(cols, True):
                col.violation(key, "crowd", msg, {"columns": cols, "exact": True})
        col.sample({"kind": "crowding-exact", "columns": [first] + [perms[-1]] * (m - 1)}, 1)
    elif kind == "crowd_ties":
        _, n, m, first = shard
        allc = list(itertools.product(V3, repeat=n))
        for rest in itertools.product(allc, repeat=m - 1):
            cols = [first] + list(rest)
            col.case()
            col.nontrivial(("ct", tuple(cols)))
            for key, msg in check_crowding(cols, False):
                col.violation(key, "crowd", msg, {"columns": cols, "exact": False})
        col.sample({"kind": "crowding-ties", "columns": [first] + [allc[1]] * (m - 1)}, 1)
    elif kind == "tour":
        _, n, fixed = shard
        from .c02 import alphabet
        alpha = alphabet("V3x2F")
        for rest in itertools.product(alpha, repeat=n - len(fixed)):
            costs = list(fixed) + list(rest)
            pairs = [(i, j) for i in range(n) for j in range(n) if i != j] or [(0, 0)]
            for ranked in (True, False, "cd-whole-set", "cd-ascending", "cd-descending"):
                for pair in pairs:
                    for coin in (0, 1):
                        col.case()
                        if len(set(costs)) >= 2:
                            col.nontrivial(("to", tuple(costs), ranked, pair, coin))
                        for key, msg in check_tournament(costs, ranked, pair, coin):
                            col.violation(key, "tour", msg, {"costs": costs, "ranked": ranked, "pair": pair, "coin": coin})
        col.sample({"kind": "tournament", "costs": list(fixed) + [alpha[3]] * (n - len(fixed)), "pair": [0, n - 1], "coin": 1}, 1)


def replay(sub, case):
    t = lambda v: tuple(v)
    if sub == "trunc":
        return check_truncate([t(v) for v in case["vectors"]], case["fn"], case["k"])
    if sub == "trunc_gaps":
        return check_truncate_gaps([tuple(v) for v in case["vectors"]], case["drop"], case["mode"], case["k"])
    if sub == "crowd_large":
        out = []
        for cols in large_columns(case["n"]):
            if len(cols) == case["m"]:
                out += check_crowding(list(cols), True)
        return out
    if sub == "trunc_big":
        from .c02 import big_population
        return check_truncate([(c[0], c[1]) for c in big_population(case["family"], case["n"])], "id", case["k"])
    if sub == "crowd":
        return check_crowding([t(c) for c in case["columns"]], case["exact"])
    if sub == "tmoved":
        from artap.operators import nondominated_truncate
        from .c02 import selector
        a, b, c = t(case["a"]), t(case["b"]), t(case["c"])
        pop = build([a, b, c], "id")
        nondominated_truncate(list(pop), 3)
        if case["how"] == "in_place":
            pop[0].vector[0], pop[0].vector[1] = b
        else:
            pop[0].vector = list(b)
        pop[0].costs_signed = list(pop[1].costs_signed)
        selector().fast_nondominated_sorting(pop)
        kept = [tuple(r.vector) for r in nondominated_truncate(list(pop), 3)]
        return [] if (len(kept) == 2 and len(set(kept)) == 2) else [("C03:truncate:moved-individual-not-deduplicated", "returned %r" % (kept,))]
    if sub == "tour":
        return check_tournament([t(c) for c in case["costs"]], case["ranked"], t(case["pair"]), case["coin"])
    raise ValueError(sub)


def run(tier, seed):
    shards = []
    vecs = list(itertools.product(LAT, repeat=2))
    for fn in ("id", "abs"):
        for n in (1, 2):
            shards.append(("trunc", fn, n, ()))
        for v in vecs:
            shards.append(("trunc", fn, 3, (v,)))
    for v in vecs:
        for w in (vecs if tier == "thorough" else vecs[::4]):
            shards.append(("trunc", "id", 4, (v, w)))
            if tier == "thorough":
                shards.append(("trunc", "abs", 4, (v, w)))
    for rot in range(5):              # pools mixing the carrier classes, every rotation of the class assignment
        shards.append(("trunc", "id@%d" % rot, 2, ()))
        for v in vecs[::3]:
            shards.append(("trunc", "id@%d" % rot, 3, (v,)))
        shards.append(("trunc", "abs@%d" % rot, 2, ()))
    small = list(itertools.product((-2.0, -1.0), repeat=2)) + [(0.0, 1.0)]
    for v in small:
        shards.append(("trunc", "id", 5, (v,)))
        shards.append(("trunc", "abs", 5, (v,)))
        for w in (small if tier == "thorough" else small[:2]):
            shards.append(("trunc", "id", 6, (v, w)))
    # crowding
    shards += [("crowd_exact", n, 1, tuple(float(x * x) for x in range(n))) for n in (7, 8, 12)]
    shards += [("crowd_big", n) for n in (7, 9)] + [("crowd_scale",), ("trunc_moved",)]
    shards += [("trunc_big", n) for n in (31, 32, 33, 63, 64, 65, 100, 127, 128, 129, 255, 256, 257) + ((1000,) if tier == "thorough" else ())]
    shards += [("trunc_gaps",)]
    shards += [("crowd_large", n) for n in (31, 32, 33, 64, 65, 100, 128, 129, 257, 1000)]
    for n in (1, 2, 3, 4, 5) + ((6,) if tier == "thorough" else ()):
        for m in (1, 2, 3):
            if n >= 5 and m == 3 and tier != "thorough":
                continue
            if n == 6 and m == 3:
                continue
            for first in itertools.permutations(UNEVEN[:n]):
                if n >= 4 and first[0] != UNEVEN[0] and m == 1:
                    pass
                shards.append(("crowd_exact", n, m, first))
    for n in (3, 4, 5):
        for m in (1, 2) + ((3,) if n <= 3 or tier == "thorough" and n == 4 else ()):
            for first in itertools.product(V3, repeat=n):
                shards.append(("crowd_ties", n, m, first))
    # tournament
    from .c02 import alphabet
    alpha = alphabet("V3x2F")
    shards += [("tour", 1, ()), ("tour", 2, ())]
    for a in alpha:
        shards.append(("tour", 3, (a,)))
    if tier == "thorough":
        for a in alpha:
            for b in alpha:
                shards.append(("tour", 4, (a, b)))
    col = run_shards(_shard, shards)
    return col, {"exhaustive": True, "vector_lattice": LAT, "tie_free_values": UNEVEN}


RULE += (' Pools that mix the carrier classes of the framework (Individual, IndividualNSGAII, IndividualEpsMOEA, IndividualSwarm, loaded from a dict) in every rotation, n<=3.')

RULE += (' Beyond small: truncation of structured populations of 31..257 (thorough 1000) at seven sizes; exact crowding formula on tie-free fronts of 31..1000 members with 1-3 objectives.')
RULE += (' Crowding distances of the same Individual objects measured again (same front twice, sub-front then whole front, whole front then sub-front; fronts <= 6) must follow the formula for the front measured last.')
