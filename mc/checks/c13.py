"""C13 -- factorial and screening designs have their defining combinatorial structure (exhaustive over small sizes)."""
import itertools
from collections import Counter

from ..core.common import Collector, run_shards

PROPERTY = "C13"
LEVEL = "exploration"
RULE = ("full factorial: centre on/off for 1..4 parameters over the box list, and every level-count vector in {1..4}^{1..4} plus shapes with up to 300 levels per factor and up to 10 factors; "
        "Plackett-Burman: 1..23 factors; Box-Behnken: 3..8 factors; GSD: every level vector in {2..5}^{2..4} x reduction 2..5 x "
        "(n=1 | n=r complementary designs via build_gsd; the generator class for n=1). Oracle: Cartesian product / orthogonality and "
        "balance / pair-corner structure / duplicate-free subset, pairwise disjoint, union = full factorial. A documented refusal "
        "(ValueError 'reduction too large', assertion for unsupported PB sizes) is accepted. Non-trivial = more than one factor; "
        "distinct = distinct configurations.")
ASSUMPTIONS = ["parameter names are unique (generators key designs by name)", "levels within a factor are distinct values"]

BOXES = ([0.0, 1.0], [-5.0, 5.0], [-3.0, -1.0], [0.1, 1.0], [0.0, 1e-9], [-1e12, 1e12], [1e6, 1e6 + 1.0])


def pname(i):
    """Unique names whose lexical order is the REVERSE of the declaration order (a generator must keep declaration order)."""
    return "v%02d_%s" % (99 - i, "abcdefghijklmnopqrstuvwxyz"[i % 26])


def params(n, shift=0):
    return [{"name": pname(i), "bounds": list(BOXES[(i + shift) % len(BOXES)])} for i in range(n)]


def check_fullfact(n, center, shift):
    from artap.operators import FullFactorGenerator
    ps = params(n, shift)
    g = FullFactorGenerator(ps)
    g.init(center)
    try:
        rows = g.generate()
    except Exception as e:
        return [("C13:fullfact:exception:%s" % type(e).__name__, "FullFactorGenerator n=%d center=%r raised %r" % (n, center, e))]
    levels = [[p["bounds"][0], (p["bounds"][0] + p["bounds"][1]) / 2.0, p["bounds"][1]] if center else list(p["bounds"]) for p in ps]
    exp = Counter(itertools.product(*levels))
    got = Counter(tuple(r) for r in rows)
    if got != exp:
        return [("C13:fullfact:not-the-product:center=%s" % center,
                 "FullFactorGenerator n=%d center=%r shift=%d: %d rows, %d distinct, expected %d" % (n, center, shift, len(rows), len(got), len(exp)))]
    return []


PREC_CASES = [
    # (bounds, precision) per parameter: declared precisions next to narrow ranges and ranges off the precision grid
    [([0.0, 0.1], 0.1), ([1.0, 1.25], 0.1)], [([0.0, 0.1], 0.1)], [([0.0, 1.0], 1.0), ([-0.5, 0.5], 1.0)], [([0.35, 2.45], 0.7), ([0.0, 1.0], 1e-3)],
    [([1.0, 3.0], 2.0), ([0.0, 10.0], 5.0), ([0.0, 1.0], 0.5)], [([-1e-3, 1e-3], 1e-2)], [([0.0, 0.3], 0.2)],
]


def check_fullfact_precision(k, center):
    """Parameters that declare a precision: the design is still the full factorial over two (three) DISTINCT levels per
    factor -- both bounds (and a centre strictly between them, within half the precision of the mid-point)."""
    from artap.operators import FullFactorGenerator
    case = PREC_CASES[k]
    ps = [{"name": pname(i), "bounds": list(b), "precision": pr} for i, (b, pr) in enumerate(case)]
    g = FullFactorGenerator(ps)
    g.init(center)
    desc = "FullFactorGenerator center=%r on %r" % (center, case)
    try:
        rows = g.generate()
    except Exception as e:
        return [("C13:fullfact:exception:%s" % type(e).__name__, "%s raised %r" % (desc, e))]
    nl = 3 if center else 2
    got = Counter(tuple(r) for r in rows)
    out = []
    if len(rows) != nl ** len(ps) or any(v != 1 for v in got.values()):
        out.append(("C13:fullfact:precision:combination-repeated-or-missing", "%s: %d rows, %d distinct, expected %d distinct" % (desc, len(rows), len(got), nl ** len(ps))))
        return out
    for j, (b, pr) in enumerate(case):
        levels = sorted(set(r[j] for r in rows))
        mid = (b[0] + b[1]) / 2.0
        ok = len(levels) == nl and levels[0] == b[0] and levels[-1] == b[1] and (not center or (b[0] < levels[1] < b[1] and abs(levels[1] - mid) <= pr / 2.0 + 1e-12))
        if not ok:
            out.append(("C13:fullfact:precision:levels", "%s: factor %d takes the levels %r, expected the bounds %r%s" % (desc, j, levels, b, " and a centre near %r" % mid if center else "")))
            break
    if not out and got != Counter(itertools.product(*[sorted(set(r[j] for r in rows)) for j in range(len(ps))])):
        out.append(("C13:fullfact:precision:not-the-product", desc))
    return out


def check_fullfact_levels(shape):
    from artap.operators import FullFactorLevelsGenerator
    ps = params(len(shape))
    values = [[10.0 * (i + 1) + j for j in range(k)] for i, k in enumerate(shape)]
    g = FullFactorLevelsGenerator(ps)
    g.init([list(v) for v in values])
    try:
        rows = g.generate()
    except Exception as e:
        return [("C13:fullfact-levels:exception:%s" % type(e).__name__, "levels %r raised %r" % (shape, e))]
    exp = Counter(itertools.product(*values))
    got = Counter(tuple(r) for r in rows)
    if got != exp:
        return [("C13:fullfact-levels:not-the-product", "level counts %r: %d rows (%d distinct), expected %d" % (shape, len(rows), len(got), len(exp)))]
    return []


def check_pb(n, shift):
    from artap.operators import PlackettBurmanGenerator
    ps = params(n, shift)
    try:
        rows = PlackettBurmanGenerator(ps).generate()
    except AssertionError:
        return [("C13:pb:refused-supported-size", "Plackett-Burman for %d factors was refused" % n)]
    except Exception as e:
        return [("C13:pb:exception:%s" % type(e).__name__, "Plackett-Burman n=%d raised %r" % (n, e))]
    out = []
    runs = 4 * (n // 4 + 1)
    if len(rows) != runs or any(len(r) != n for r in rows):
        out.append(("C13:pb:shape", "PB n=%d: %d rows x %r, expected %d x %d" % (n, len(rows), sorted(set(map(len, rows))), runs, n)))
        return out
    coded = []
    for r in rows:
        c = []
        for v, p in zip(r, ps):
            if v == p["bounds"][0]:
                c.append(-1)
            elif v == p["bounds"][1]:
                c.append(1)
            else:
                return [("C13:pb:entry-not-a-bound", "PB n=%d: entry %r is neither bound of %r" % (n, v, p["bounds"]))]
        coded.append(c)
    for j in range(n):
        if sum(row[j] for row in coded) != 0:
            out.append(("C13:pb:unbalanced-column", "PB n=%d: column %d sums to %d" % (n, j, sum(row[j] for row in coded))))
            break
    for j in range(n):
        for k in range(j + 1, n):
            d = sum(row[j] * row[k] for row in coded)
            if d != 0:
                out.append(("C13:pb:non-orthogonal", "PB n=%d: columns %d,%d have inner product %d" % (n, j, k, d)))
                return out
    return out


def check_bb(n, shift):
    from artap.operators import BoxBehnkenGenerator
    ps = params(n, shift)
    try:
        rows = BoxBehnkenGenerator(ps).generate()
    except Exception as e:
        return [("C13:bb:exception:%s" % type(e).__name__, "Box-Behnken n=%d raised %r" % (n, e))]
    lo = [p["bounds"][0] for p in ps]
    hi = [p["bounds"][1] for p in ps]
    mid = [(a + b) / 2.0 for a, b in zip(lo, hi)]
    exp = Counter()
    for i in range(n):
        for j in range(i + 1, n):
            for a in (lo[i], hi[i]):
                for b in (lo[j], hi[j]):
                    r = list(mid)
                    r[i], r[j] = a, b
                    exp[tuple(r)] += 1
    exp[tuple(mid)] += 1
    got = Counter(tuple(r) for r in rows)
    if got != exp:
        missing = sum((exp - got).values())
        extra = sum((got - exp).values())
        return [("C13:bb:structure:%s" % ("missing" if missing else "extra"),
                 "Box-Behnken n=%d shift=%d: %d rows, %d expected rows missing, %d unexpected (expected 4*C(n,2)+1 = %d)" % (
                     n, shift, len(rows), missing, extra, sum(exp.values())))]
    return []


def check_gsd(levels, r, complementary):
    from artap.doe import build_gsd
    out = []
    full = set(itertools.product(*[range(k) for k in levels]))
    try:
        res = build_gsd(list(levels), r, r if complementary else 1)
    except ValueError:
        return out      # documented refusal
    except Exception as e:
        return [("C13:gsd:exception:%s" % type(e).__name__, "build_gsd(%r, %d, n=%d) raised %r" % (levels, r, r if complementary else 1, e))]
    designs = list(res) if complementary else [res]
    seen = []
    for d in designs:
        rows = [tuple(int(v) for v in row) for row in d]
        if any(row not in full for row in rows):
            out.append(("C13:gsd:row-outside-factorial", "build_gsd(%r, %d): a row is not a level tuple" % (levels, r)))
        if len(set(rows)) != len(rows):
            out.append(("C13:gsd:duplicate-rows", "build_gsd(%r, %d): duplicate rows" % (levels, r)))
        seen.append(set(rows))
    if complementary:
        if len(designs) != r:
            out.append(("C13:gsd:complementary-count", "build_gsd(%r, %d, n=%d) returned %d designs" % (levels, r, r, len(designs))))
        for a in range(len(seen)):
            for b in range(a + 1, len(seen)):
                if seen[a] & seen[b]:
                    out.append(("C13:gsd:complementary-overlap", "build_gsd(%r, %d, n=%d): designs %d and %d overlap" % (levels, r, r, a, b)))
                    break
        union = set().union(*seen) if seen else set()
        if union != full:
            out.append(("C13:gsd:complementary-union", "build_gsd(%r, %d, n=%d): union has %d of %d runs" % (levels, r, r, len(union), len(full))))
    return out


def check_gsd_generator(levels, r):
    from artap.operators import GSDGenerator
    from artap.doe import build_gsd
    values = [[100.0 * (i + 1) + j for j in range(k)] for i, k in enumerate(levels)]
    g = GSDGenerator(params(len(levels)))
    g.init(values, r)
    try:
        rows = g.generate()
    except ValueError:
        return []
    except Exception as e:
        return [("C13:gsd-generator:exception:%s" % type(e).__name__, "GSDGenerator(%r, %d) raised %r" % (levels, r, e))]
    full = set(itertools.product(*values))
    rows = [tuple(x) for x in rows]
    out = []
    if any(x not in full for x in rows):
        out.append(("C13:gsd-generator:row-outside-factorial", "GSDGenerator(%r, %d): a row is not a combination of the supplied levels" % (levels, r)))
    if len(set(rows)) != len(rows):
        out.append(("C13:gsd-generator:duplicate-rows", "GSDGenerator(%r, %d): duplicate rows" % (levels, r)))
    return out


MIXED_LEVELS = [
    # level lists that are no homogeneous float lists: the design returns the GIVEN levels
    ([1, 2.5], [2 ** 53 + 1, 0.5]), ([2 ** 53 + 1, 2 ** 53 + 2], [1.5, 2.5]), ([2 ** 63, 2 ** 63 + 1, -2 ** 63 - 1],),
    (["steel", "copper"], [1, 2, 3]), (["steel", 1.5], [0.25, 0.75]), ([None, 1.0], [True, 2.5]),
    ([(1, 2), (3, 4)], [0.5, 1.5]), ([(1, 2), (3, 4, 5)], [0.5]), ([0.1, 1 / 3.0, 5e-324, 1.7976931348623157e308],),
    ([1, 2, 3], [10 ** 30, 10 ** 30 + 1]), ([3, 1, 2], [2.0, 1.0]), ([1e16, 1e16 + 2.0], [1, 1e16]),
]


def check_mixed_levels(k):
    from artap.operators import FullFactorLevelsGenerator
    values = MIXED_LEVELS[k]
    g = FullFactorLevelsGenerator(params(len(values)))
    g.init([list(v) for v in values])
    try:
        rows = g.generate()
    except Exception as e:
        return [("C13:fullfact-levels:exception:%s" % type(e).__name__, "levels %r raised %r" % (values, e))]
    try:
        exp = Counter(itertools.product(*values))
        got = Counter(tuple(r) for r in rows)
    except TypeError as e:
        return [("C13:fullfact-levels:levels-mangled", "levels %r came back as %r (%r)" % (values, rows[:3], e))]
    if got != exp:
        return [("C13:fullfact-levels:not-the-given-levels", "levels %r: got rows %r ..." % (values, rows[:4]))]
    return []


def doe_calls():
    """Direct calls of the design functions: (label, thunk)."""
    import artap.doe as doe
    calls = []
    for n in range(1, 24):
        calls.append(("pbdesign(%d)" % n, lambda n=n: doe.pbdesign(n)))
    for n in (3, 4, 5, 6, 7):
        calls.append(("bbdesign(%d)" % n, lambda n=n: doe.bbdesign(n)))
        calls.append(("bbdesign(%d, center=1)" % n, lambda n=n: doe.bbdesign(n, center=1)))
    for lv in ((2, 2), (3, 2, 2), (2, 3, 4), (4,)):
        calls.append(("fullfact(%r)" % (lv,), lambda lv=lv: doe.fullfact(list(lv))))
    for n in (1, 2, 3, 5):
        calls.append(("ff2n(%d)" % n, lambda n=n: doe.ff2n(n)))
    for lv, r in (((3, 3, 3), 3), ((2, 3, 4), 2), ((4, 4, 2), 2), ((3, 3), 2)):
        calls.append(("build_gsd(%r, %d)" % (lv, r), lambda lv=lv, r=r: doe.build_gsd(list(lv), r)))
    return calls


def check_scribble(label, thunk, other):
    """The caller owns what a design function returns: overwriting it must not change what later calls return."""
    import numpy as np
    try:
        first = thunk()
        keep = np.array(first, dtype=float, copy=True)
        if isinstance(first, np.ndarray):
            try:
                first[...] = 7.0
            except ValueError:
                pass                       # a read-only result cannot be scribbled on: fine
        if other is not None:
            o = other()
            if isinstance(o, np.ndarray):
                try:
                    o[...] = -3.0
                except ValueError:
                    pass
        second = np.array(thunk(), dtype=float, copy=True)
    except Exception as e:
        return [("C13:doe:exception:%s" % type(e).__name__, "%s raised %r" % (label, e))]
    if keep.shape != second.shape or not (keep == second).all():
        return [("C13:doe:result-changed-after-caller-overwrote-earlier-result", "%s: second call differs from the first after the caller overwrote the first result in place" % label)]
    return []


def check_design_through_sweep(gen_name, n, response):
    """The design as a user runs it: handed to SweepAlgorithm. The recorded runs are the design's runs, whatever the response
    values are (a diverged solver reports inf or nan for some corners)."""
    from artap.algorithm_sweep import SweepAlgorithm
    from artap.operators import FullFactorGenerator, PlackettBurmanGenerator, BoxBehnkenGenerator
    from .c_support import make_problem, reset_ids
    reset_ids()
    bounds = [list(BOXES[i % len(BOXES)]) for i in range(n)]

    def f(v):
        k = sum(1 for x, b in zip(v, bounds) if x == b[1])           # number of factors at their upper bound
        if response == "nonfinite" and k % 3 == 0:
            return [float("inf") if k else float("nan")]
        if response == "zero":
            return [0.0]
        return [float(k) + 0.5]
    problem = make_problem(n_params=n, bounds=bounds, f=f, param_names=[pname(i) for i in range(n)])
    gen = {"ff": FullFactorGenerator, "pb": PlackettBurmanGenerator, "bb": BoxBehnkenGenerator}[gen_name](problem.parameters)
    if gen_name == "ff":
        gen.init(True)
    desc = "%s design for %d factors run by SweepAlgorithm, response=%s" % (gen_name, n, response)
    try:
        exp = Counter(tuple(r) for r in gen.generate())
        alg = SweepAlgorithm(problem, generator=gen)
        alg.options['verbose_level'] = 0
        alg.run()
    except Exception as e:
        return [("C13:sweep:exception:%s" % type(e).__name__, "%s raised %r" % (desc, e))]
    got = Counter(tuple(i.vector) for i in problem.individuals)
    if got != exp:
        return [("C13:sweep:recorded-runs-are-not-the-design", "%s: %d of the %d recorded runs are not runs of the design (%d design runs missing)" % (
            desc, sum((got - exp).values()), sum(got.values()), sum((exp - got).values())))]
    return []


def _shard(shard, col: Collector):
    kind = shard[0]

    def rec(sub, case, viol, nontrivial=True):
        col.case()
        if nontrivial:
            col.nontrivial((sub, repr(case)))
        for key, msg in viol:
            col.violation(key, sub, msg, case)
    if kind == "ff":
        for n in (1, 2, 3, 4):
            for center in (False, True):
                for shift in range(len(BOXES)):
                    rec("ff", {"n": n, "center": center, "shift": shift}, check_fullfact(n, center, shift), n > 1)
        for nf in (1, 2, 3, 4):
            for shape in itertools.product((1, 2, 3, 4), repeat=nf):
                rec("ffl", {"shape": shape}, check_fullfact_levels(shape), nf > 1)
        # beyond small: factors with many levels, many two-level factors
        for shape in ((127, 2), (128, 2), (129, 3), (2, 200), (260,), (300, 2), (2,) * 8, (2,) * 10, (3,) * 6, (5, 6, 7), (2, 3, 4, 5, 2)):
            rec("ffl", {"shape": shape}, check_fullfact_levels(shape), True)
        for n in (5, 6, 8):
            for center in (False, True):
                if not (center and n == 8):
                    rec("ff", {"n": n, "center": center, "shift": 1}, check_fullfact(n, center, 1), True)
        for k in range(len(PREC_CASES)):
            for center in (False, True):
                rec("ffprec", {"k": k, "center": center}, check_fullfact_precision(k, center), True)
        for k in range(len(MIXED_LEVELS)):
            rec("fflmixed", {"k": k}, check_mixed_levels(k), True)
        col.sample({"kind": "full-factorial-levels", "shape": [2, 4, 3]}, 1)
    elif kind == "pb":
        for n in range(1, 24):
            for shift in range(len(BOXES)):
                rec("pb", {"n": n, "shift": shift}, check_pb(n, shift), n > 1)
        col.sample({"kind": "plackett-burman", "factors": 11, "runs": 12}, 1)
    elif kind == "sweep":
        for gen_name, ns in (("ff", (2, 3)), ("pb", (3, 7, 11)), ("bb", (3, 4))):
            for n in ns:
                for response in ("plain", "nonfinite", "zero"):
                    rec("sweep", {"gen": gen_name, "n": n, "response": response}, check_design_through_sweep(gen_name, n, response), True)
        col.sample({"kind": "designs run through SweepAlgorithm", "responses": ["plain", "nonfinite", "zero"]}, 1)
    elif kind == "scribble":
        calls = doe_calls()
        for i, (label, thunk) in enumerate(calls):
            for other in (None, calls[(i + 1) % len(calls)][1], calls[i - 1][1]):
                rec("scribble", {"i": i, "other": None if other is None else "neighbour"}, check_scribble(label, thunk, other), True)
        # the generators built on them: the first design is checked, its rows overwritten, a second design checked again
        for n in range(1, 24):
            from artap.operators import PlackettBurmanGenerator
            try:
                rows = PlackettBurmanGenerator(params(n, 0)).generate()
            except Exception as e:
                rec("pb", {"n": n, "shift": 0}, [("C13:pb:exception:%s" % type(e).__name__, "Plackett-Burman n=%d raised %r after earlier results were overwritten by their caller" % (n, e))], True)
                continue
            for r in rows:
                for j in range(len(r)):
                    r[j] = 12345.0
            rec("pb", {"n": n, "shift": 0}, check_pb(n, 0), True)
        col.sample({"kind": "caller overwrites returned designs", "functions": len(calls)}, 1)
    elif kind == "bb":
        _, n = shard
        for shift in range(len(BOXES)):
            rec("bb", {"n": n, "shift": shift}, check_bb(n, shift))
        col.sample({"kind": "box-behnken", "factors": n, "runs": 2 * n * (n - 1) + 1}, 1)
    elif kind == "gsd":
        _, nf, first = shard
        for rest in itertools.product((2, 3, 4, 5), repeat=nf - 1):
            levels = (first,) + rest
            for r in (2, 3, 4, 5):
                for comp in (False, True):
                    rec("gsd", {"levels": levels, "r": r, "complementary": comp}, check_gsd(levels, r, comp))
                rec("gsdgen", {"levels": levels, "r": r}, check_gsd_generator(levels, r))
        col.sample({"kind": "gsd", "levels": [first] + [3] * (nf - 1), "reduction": 2, "complementary": True}, 1)


def replay(sub, case):
    if sub == "ff":
        return check_fullfact(case["n"], case["center"], case["shift"])
    if sub == "ffl":
        return check_fullfact_levels(tuple(case["shape"]))
    if sub == "pb":
        return check_pb(case["n"], case["shift"])
    if sub == "bb":
        return check_bb(case["n"], case["shift"])
    if sub == "sweep":
        return check_design_through_sweep(case["gen"], case["n"], case["response"])
    if sub == "ffprec":
        return check_fullfact_precision(case["k"], case["center"])
    if sub == "fflmixed":
        return check_mixed_levels(case["k"])
    if sub == "scribble":
        calls = doe_calls()
        i = case["i"]
        out = []
        for other in (None, calls[(i + 1) % len(calls)][1], calls[i - 1][1]):
            out += check_scribble(calls[i][0], calls[i][1], other)
        return out
    if sub == "gsd":
        return check_gsd(tuple(case["levels"]), case["r"], case["complementary"])
    if sub == "gsdgen":
        return check_gsd_generator(tuple(case["levels"]), case["r"])
    raise ValueError(sub)


def run(tier, seed):
    shards = [("ff",), ("pb",), ("scribble",), ("sweep",)] + [("bb", n) for n in (3, 4, 5, 6, 7, 8) + ((9, 10) if tier == "thorough" else ())]
    for nf in (2, 3, 4) + ((5,) if tier == "thorough" else ()):
        for first in (2, 3, 4, 5):
            shards.append(("gsd", nf, first))
    shards.sort(key=lambda s: -(s[1] if len(s) > 1 and isinstance(s[1], int) else 0))
    col = run_shards(_shard, shards)
    return col, {"exhaustive": True, "boxes": BOXES}


RULE += (' FullFactorGenerator on seven parameter sets that declare a precision (narrow ranges, bounds off the grid), with and without centre.')

RULE += (' Designs run through SweepAlgorithm with plain, zero and non-finite responses: the recorded runs are the design.')
