"""C07 -- parallel evaluation is equivalent to serial evaluation under every schedule.

Interleavings of 2-3 evaluation tasks on 2 workers are enumerated with the controlled scheduler (pre-emption bounded),
at objective-call and store-synchronisation granularity (thorough: additionally at every source line of job.py /
datastore.py), with the SQLite busy-timeout as an environment choice.
"""
import json
import threading
import os
import sqlite3
import tempfile

from ..core.common import Collector, run_shards, HarnessError
from ..core.explorer import explore, explore_part, run_once
from ..core.sched import scheduled

PROPERTY = "C07"
LEVEL = "model_checking"
RULE = ("executions of Algorithm.evaluate(batch) with max_processes=2 under the controlled scheduler (batches of 0 and 1 designs included): 2 tasks without store: all "
        "interleavings; 2 tasks with a thread-safe SqliteDataStore: <=3 (quick) / <=4 (thorough) deviations (pre-emptions + busy-timeout "
        "expiries); 3 tasks on 2 workers: <=3 without store, <=2 / <=3 with store; a constrained problem (designs of differing feasibility, scheduling points inside the constraint function); an external lock holder (every upsert may find the database locked past the busy timeout, up to 6 times, every pattern); thorough adds line-level "
        "points with <=2 pre-emptions and transient objective failures in workers. states = distinct (per-worker position labels) vectors visited; transitions = scheduling steps executed; "
        "distinct_nontrivial = distinct complete schedules (traces) with at least one context switch between unfinished workers.")
ASSUMPTIONS = ["joblib's threading backend honours the contract of the model executor (lazy dispatch, each task once, shared memory, "
               "first exception re-raised); a free-running pass through the real joblib.Parallel with the same oracle cross-checks it",
               "scheduling points: task start/end, objective entry/exit, every SQLite connect/execute/commit/close (+ source lines in the "
               "fine tier); races inside a single source line are not explored",
               "start_time/finish_time/algorithm_id are excluded from the serial-equivalence comparison"]


def f(v):
    return [v[0] * 1.25 + 0.3333333333, 2.0 - v[0]]


def g_constraint(x):
    """Design 0 (x=1.0) satisfies the constraint, the others violate it."""
    return [x[0] - 1.5]


def expected_fields(vec, constrained=False):
    import numpy as np
    c = f(list(vec))
    marker = (not all(v < 0 for v in g_constraint(list(vec)))) if constrained else True
    return c, [1 * np.round(c[0], decimals=7), -1 * np.round(c[1], decimals=7), marker]


class Env:
    """Per-process reusable pieces (problem creation is the expensive part)."""
    cache = {}


def run_batch(ctx, ntasks, store, fine, faults, real_joblib=False):
    from artap.algorithm import DummyAlgorithm
    from artap.datastore import SqliteDataStore, DummyDataStore
    from artap.individual import Individual
    from .c_support import make_problem, reset_ids
    reset_ids()
    constrained = faults == "constrained"
    extlock = (6, 0) if faults == "extlock" else None
    unregistered = faults == "unregistered"      # the batch is handed to evaluate() without being recorded in problem.individuals
    mixedcls = faults == "mixedcls"              # designs carried by the different individual classes of the framework
    procs = int(faults[5:]) if isinstance(faults, str) and faults.startswith("procs") else 2     # max_processes for this execution
    dupvec = faults == "dupvec"            # designs that are distinct objects at the same point (repeated sweep points, clipped particles)
    iterator = faults == "iterator"        # the batch is handed over as a one-shot iterator
    abort = faults == "abort"              # the last design fails five times: the call raises, what was evaluated before stays stored
    serialise = faults == "serialise"      # a scheduling point INSIDE the serialisation of a design (while its row is being built)
    nppoints = faults == "nppoints"        # scheduling points after every numpy call made by artap.individual (below line granularity)
    if constrained or extlock or unregistered or mixedcls or procs != 2 or dupvec or iterator or abort or serialise or nppoints:
        faults = False
    key = ("p", constrained)
    env = Env.cache.get(key)
    if env is None:
        env = {"holder": None, "ctx": None}

        def before(problem, individual):
            h = env["holder"]
            s = h.get("sched") if h else None
            if s is not None:
                s.point("obj:enter")
            if env.get("abort_vector") is not None and tuple(individual.vector) != env["abort_vector"] and individual is env.get("abort_ind"):
                raise RuntimeError("permanent failure")         # the re-sampled replacements of the failing design fail as well
            if env.get("abort_vector") is not None and tuple(individual.vector) == env["abort_vector"]:
                env["abort_ind"] = individual
                raise RuntimeError("permanent failure")
            if env["faults"]:
                # 'free': failures cost no deviation (all patterns); otherwise every failure is one deviation
                c = env["ctx"].choose("fault", 2, 0 if env["faults"] == "free" else 1, "objective")
                env["calls"].append((id(individual), tuple(individual.vector), "fail" if c == 1 else "ok"))
                if c == 1:
                    raise TimeoutError("injected")

        def after(problem, individual):
            h = env["holder"]
            s = h.get("sched") if h else None
            if s is not None:
                s.point("obj:exit")
        def g(x):
            h = env["holder"]
            sch = h.get("sched") if h else None
            if sch is not None:
                sch.point("g:enter")
            r = g_constraint(x)
            if sch is not None:
                sch.point("g:exit")
            return r
        env["problem"] = make_problem(n_params=1, bounds=[[0.0, 10.0]], criteria=["minimize", "maximize"], f=f,
                                      before=before, after=after, g=g if constrained else None)
        env["alg"] = DummyAlgorithm(env["problem"])
        env["alg"].options['max_processes'] = 2
        Env.cache[key] = env
    problem = env["problem"]
    alg = env["alg"] = DummyAlgorithm(problem)          # a fresh algorithm (and Job) per execution: nothing carried over by the harness
    alg.options['max_processes'] = procs
    env["ctx"] = ctx
    env["faults"] = faults
    env["calls"] = []
    problem.h_log = []
    problem.failed = []
    problem.individuals = []
    db = None
    if store:
        db = os.path.join(tempfile.gettempdir(), "c07-%d.sqlite" % os.getpid())
        for ext in ("", "-journal"):
            if os.path.exists(db + ext):
                os.remove(db + ext)
        problem.data_store = SqliteDataStore(problem, database_name=db, thread_safe=True)
    else:
        problem.data_store = DummyDataStore()
    if mixedcls:
        from .c20 import make_as, CLASSES
        batch = [make_as(CLASSES[k % 4], [float(k + 1)]) for k in range(ntasks)]
    elif dupvec:
        batch = [Individual([float(k // 2 + 1)]) for k in range(ntasks)]
    else:
        batch = [Individual([float(k + 1)]) for k in range(ntasks)]
    env["abort_vector"] = tuple(batch[-1].vector) if (abort and batch) else None
    if serialise:
        class SchedDict(dict):
            """Custom data whose iteration is a scheduling point: another worker may run while this design is being serialised."""
            def items(self):
                h = env["holder"]
                sch = h.get("sched") if h else None
                if sch is not None:
                    sch.point("serialise:custom")
                return dict.items(self)
        for ind in batch:
            ind.custom = SchedDict(note="x")
    if not unregistered:
        for ind in batch:
            problem.individuals.append(ind)
    exc = None
    info = {}
    if real_joblib:
        env["holder"] = None
        try:
            alg.evaluate(batch)
        except BaseException as e:  # noqa
            exc = e
    else:
        import artap.individual as _indmod
        real_np = _indmod.np

        class NumpyPoints:
            """artap.individual's view of numpy: every call is followed by a scheduling point (two library calls in one source
            line can be separated by a thread switch)."""
            def __getattr__(self, name):
                attr = getattr(real_np, name)
                if not callable(attr) or isinstance(attr, type):
                    return attr

                def call(*a, **k):
                    r = attr(*a, **k)
                    h = env["holder"]
                    sch = h.get("sched") if h else None
                    if sch is not None and threading.get_ident() in getattr(sch, "by_ident", {}):
                        sch.point("np:%s" % name)
                    return r
                return call
        with scheduled(ctx, fine=fine, db=store, extlock=extlock) as holder:
            env["holder"] = holder
            if nppoints:
                _indmod.np = NumpyPoints()
            try:
                if iterator:
                    alg.evaluator.evaluate(iter(batch))        # the evaluator takes any iterable, also a one-shot one
                else:
                    alg.evaluate(batch)
            except HarnessError:
                raise
            except BaseException as e:  # noqa
                exc = e
            finally:
                env["holder"] = None
                _indmod.np = real_np
        sch = holder.get("sched")
        info = {"trace": list(sch.trace) if sch else [], "deadlock": sch.deadlock if sch else None,
                "conflicts": holder["hooks"].lock_conflicts, "points": sch.points if sch else 0, "calls": list(env["calls"])}
    rows = None
    if store:
        problem.data_store = DummyDataStore()
        con = sqlite3.connect(db)
        try:
            rows = con.execute("SELECT id, individual FROM individuals").fetchall()
        finally:
            con.close()
    return problem, batch, exc, rows, info


def gradient_body_factory(ntasks, failing, col=None):
    """Designs AND their finite-difference children in one parallel batch (what GradientEvaluator dispatches), with a store;
    optionally the first design's own call fails transiently once. Every design and every child ends with the costs of its
    own vector, and its row is its final data."""
    def body(ctx):
        from artap.algorithm import Algorithm, EvaluatorType
        from artap.datastore import SqliteDataStore, DummyDataStore
        from artap.individual import Individual
        from ..core import shim as shim_mod
        from .c_support import make_problem, reset_ids
        reset_ids()
        shim_mod.install().reset(4242, None)
        env = Env.cache.get("grad")
        if env is None:
            env = {"holder": None, "fail": False, "calls": 0}

            def before(problem, individual):
                h = env["holder"]
                sch = h.get("sched") if h else None
                if sch is not None:
                    sch.point("obj:enter")
                env["calls"] += 1
                if env["fail"] and env["first"] is individual and not env["failed_once"]:
                    env["failed_once"] = True
                    raise TimeoutError("transient")

            def after(problem, individual):
                h = env["holder"]
                sch = h.get("sched") if h else None
                if sch is not None:
                    sch.point("obj:exit")
            env["problem"] = make_problem(n_params=1, bounds=[[0.0, 10.0]], criteria=["minimize", "maximize"], f=f, before=before, after=after)
            env["alg"] = Algorithm(env["problem"], evaluator_type=EvaluatorType.GRADIENT)
            env["alg"].options['max_processes'] = 2
            Env.cache["grad"] = env
        problem, alg = env["problem"], env["alg"]
        problem.h_log, problem.failed, problem.individuals = [], [], []
        env["fail"], env["failed_once"], env["calls"] = failing, False, 0
        db = os.path.join(tempfile.gettempdir(), "c07g-%d.sqlite" % os.getpid())
        for ext in ("", "-journal"):
            if os.path.exists(db + ext):
                os.remove(db + ext)
        problem.data_store = SqliteDataStore(problem, database_name=db, thread_safe=True)
        batch = [Individual([float(k + 1)]) for k in range(ntasks)]
        env["first"] = batch[0]
        exc = None
        with scheduled(ctx, fine=False, db=True) as holder:
            env["holder"] = holder
            try:
                alg.evaluate(batch)
            except HarnessError:
                raise
            except BaseException as e:  # noqa
                exc = e
            finally:
                env["holder"] = None
        sch = holder.get("sched")
        trace = list(sch.trace) if sch else []
        problem.data_store = DummyDataStore()
        con = sqlite3.connect(db)
        try:
            rows = dict(con.execute("SELECT id, individual FROM individuals").fetchall())
        finally:
            con.close()
        desc = "gradient evaluator, %d designs with their children on 2 workers, transient failure of the first design: %r, schedule %r" % (ntasks, failing, trace[:50])
        out = []
        if exc is not None:
            out.append(("C07:gradient:exception:%s" % type(exc).__name__, "evaluate raised %r; %s" % (exc, desc)))
        everyone = []
        for ind in batch:
            everyone.append(("design", ind))
            everyone += [("child", c) for c in ind.children]
        for kind_, ind in everyone:
            if exc is not None:
                break
            costs, signed = expected_fields(ind.vector)
            if ind.state != Individual.State.EVALUATED or list(ind.costs) != costs:
                out.append(("C07:gradient:%s:costs-not-of-its-vector" % kind_, "%s at %r: state %r costs %r, serial evaluation of that vector gives %r; %s" % (
                    kind_, list(ind.vector), ind.state, list(ind.costs), costs, desc)))
                break
            row = rows.get(ind.id)
            final = json.loads(json.dumps(ind.to_dict()))
            keys = ("vector", "costs", "costs_signed", "state")     # the gradient feature is attached after the batch and stored by the closing sync_all
            if row is None or any(json.loads(row).get(k) != final.get(k) for k in keys):
                got = json.loads(row) if row else None
                diff = sorted(k for k in keys if got is None or got.get(k) != final.get(k))
                out.append(("C07:gradient:%s:row-not-final-data:%s" % (kind_, ",".join(diff[:4])), "%s id %d: stored row differs from the final individual in %r (stored state %r); %s" % (
                    kind_, ind.id, diff, got.get("state") if got else None, desc)))
                break
        ctx.digest = (tuple(trace), type(exc).__name__ if exc else None)
        if col is not None:
            col.count("transitions", len(trace))
            if sum(1 for a, b in zip(trace, trace[1:]) if a[0] != b[0]) > 1:
                col.nontrivial(("grad", tuple(trace)))
        return out
    return body


def judge(problem, batch, exc, rows, info, store, faults, desc):
    from artap.individual import Individual
    out = []
    constrained = faults == "constrained"
    abort = faults == "abort"
    if constrained or faults in ("extlock", "unregistered", "mixedcls", "dupvec", "iterator", "abort", "serialise", "nppoints") or (isinstance(faults, str) and faults.startswith("procs")):
        faults = False

    def bad(key, msg):
        out.append((key, msg + "; " + desc))
    if info.get("deadlock"):
        bad("C07:deadlock", "workers left blocked: %s" % info["deadlock"])
    if abort:
        if not isinstance(exc, RuntimeError):
            bad("C07:abort:five-failures-no-runtimeerror", "the last design fails permanently but the caller saw %r" % (exc,))
    elif exc is not None and not faults:
        bad("C07:exception:%s" % type(exc).__name__, "evaluate raised %r" % (exc,))
        return out
    calls = {}
    for ident, vec in problem.h_log:
        calls.setdefault(ident, []).append(vec)
    for k, ind in enumerate(batch):
        n = len(calls.get(id(ind), []))
        if abort and (k == len(batch) - 1 or ind.state != Individual.State.EVALUATED):
            if k == len(batch) - 1 and ind.state == Individual.State.EVALUATED:
                bad("C07:abort:failing-design-evaluated", "the permanently failing design is marked evaluated")
            if k == len(batch) - 1 and n != 5:
                bad("C07:abort:attempts", "the permanently failing design was attempted %d times, the limit is five" % n)
            continue
        if not faults:
            if n != 1:
                bad("C07:objective-calls:%s" % ("none" if n == 0 else "repeated"), "design %d evaluated %d times" % (k, n))
            costs, signed = expected_fields(ind.vector, constrained)
            if ind.state != Individual.State.EVALUATED:
                bad("C07:state", "design %d state %r (costs %r)" % (k, ind.state, ind.costs))
                continue
            if list(ind.costs) != costs:
                bad("C07:costs-differ-from-serial", "design %d costs %r, serial evaluation gives %r" % (k, ind.costs, costs))
            if [float(x) for x in ind.costs_signed[:-1]] != [float(x) for x in signed[:-1]] or ind.costs_signed[-1] is not signed[-1]:
                bad("C07:signed-costs-differ-from-serial%s" % (":feasibility-marker" if ind.costs_signed[-1] is not signed[-1] else ""),
                    "design %d signed %r, serial %r" % (k, ind.costs_signed, signed))
            if constrained and bool(ind.features.get("feasible")) != (not signed[-1]):
                bad("C07:feasible-feature-differs-from-serial", "design %d feasible=%r, serial %r" % (k, ind.features.get("feasible"), not signed[-1]))
    if faults:
        # reference retry protocol, per design (designs run concurrently, so only per-design order is defined)
        five = False
        n_fail = 0
        for k, ind in enumerate(batch):
            mine = [c for c in info.get("calls", []) if c[0] == id(ind)]
            outs = [c[2] for c in mine]
            n_fail += outs.count("fail")
            if len(mine) > 5:
                bad("C07:faults:more-than-five-attempts", "design %d attempted %d times (%r)" % (k, len(mine), outs))
            if "ok" in outs[:-1]:
                bad("C07:faults:call-after-success", "design %d outcomes %r" % (k, outs))
            if outs and outs[-1] == "ok":
                costs, signed = expected_fields(mine[-1][1])
                if ind.state != Individual.State.EVALUATED or tuple(ind.vector) != mine[-1][1] or list(ind.costs) != costs:
                    bad("C07:faults:result-not-of-final-vector", "design %d: state %r vector %r costs %r after outcomes %r" % (k, ind.state, ind.vector, ind.costs, outs))
            else:
                if ind.state == Individual.State.EVALUATED:
                    bad("C07:faults:failed-design-evaluated", "design %d outcomes %r but marked evaluated" % (k, outs))
                if len(outs) >= 5:
                    five = True
                elif exc is None:
                    bad("C07:faults:no-retry", "design %d gave up after %d attempts (%r) and nothing was raised" % (k, len(outs), outs))
        if five and not isinstance(exc, RuntimeError):
            bad("C07:faults:five-failures-no-runtimeerror", "a design failed five times but the caller saw %r" % (exc,))
        if exc is not None and not five:
            bad("C07:faults:exception-without-five-failures:%s" % type(exc).__name__,
                "caller saw %r although no design failed five times: %r" % (exc, [c[2] for c in info.get("calls", [])]))
        if len(problem.failed) != n_fail:
            bad("C07:faults:failed-list", "%d transient failures, %d entries in problem.failed" % (n_fail, len(problem.failed)))
        elif sorted(tuple(x.vector) for x in problem.failed) != sorted(c[1] for c in info.get("calls", []) if c[2] == "fail"):
            bad("C07:faults:failed-vectors", "problem.failed vectors differ from the vectors that failed")
    if store and rows is not None:
        byid = {}
        for rid, js in rows:
            byid.setdefault(rid, []).append(js)
        for k, ind in enumerate(batch):
            if ind.state != Individual.State.EVALUATED:
                continue
            got = byid.get(ind.id, [])
            if len(got) != 1:
                bad("C07:store:%s" % ("row-missing" if not got else "duplicate-rows"), "design %d (id %d) has %d rows" % (k, ind.id, len(got)))
                continue
            try:
                row = json.loads(got[0])
            except Exception:
                bad("C07:store:row-unparsable", "design %d row %r" % (k, got[0][:80]))
                continue
            final = json.loads(json.dumps(ind.to_dict()))
            if row != final:
                diff = sorted(kk for kk in set(row) | set(final) if row.get(kk) != final.get(kk))
                bad("C07:store:row-not-final-data:%s" % ",".join(diff), "design %d row differs from the final individual in %r: row %r final %r" % (
                    k, diff, {d: row.get(d) for d in diff}, {d: final.get(d) for d in diff}))
        extra = set(byid) - {i.id for i in batch}
        if extra and not faults:
            bad("C07:store:foreign-rows", "rows for ids %r" % sorted(extra))
    return out


def body_factory(ntasks, store, fine, faults, col=None):
    def body(ctx):
        # re-sampling after an injected failure draws random numbers: every execution starts from the same owned stream
        # (a process that ran another check before has the shim installed; its draw budget is per execution)
        from ..core import shim as shim_mod
        shim_mod.install().reset(4242, None)
        problem, batch, exc, rows, info = run_batch(ctx, ntasks, store, fine, faults)
        desc = "tasks=%d store=%r fine=%r faults=%r schedule=%r" % (
            ntasks, store, fine, faults, [(w, l) for w, l in info["trace"]][:60])
        out = judge(problem, batch, exc, rows, info, store, faults, desc)
        ctx.digest = (tuple(info["trace"]), type(exc).__name__ if exc else None)
        if col is not None:
            col.count("transitions", len(info["trace"]))
            col.count("lock_conflicts", info["conflicts"])
            labels = {}
            for wid, label in info["trace"]:
                labels[wid] = label
                col.add_to("states", tuple(sorted(labels.items())))
            switches = sum(1 for a, b in zip(info["trace"], info["trace"][1:]) if a[0] != b[0])
            if switches > 1:
                col.nontrivial(tuple(info["trace"]))
        return out
    return body


def free_running(ntasks, store, rounds, col):
    """Non-deciding cross-check: the same bodies through the real joblib.Parallel, same oracle."""
    import contextlib
    import io
    for r in range(rounds):
        with contextlib.redirect_stderr(io.StringIO()):
            problem, batch, exc, rows, info = run_batch(None, ntasks, store, False, False, real_joblib=True)
        out = judge(problem, batch, exc, rows, {}, store, False, "free-running real joblib tasks=%d store=%r round=%d" % (ntasks, store, r))
        col.count("free_running_executions")
        for key, msg in out:
            col.violation(key + ":free-running", "free", msg, {"ntasks": ntasks, "store": store, "rounds": rounds})


def _shard(shard, col: Collector):
    kind = shard[0]
    if kind == "explore":
        _, ntasks, store, fine, faults, bound = shard[:6]
        part, nparts = (shard[6], shard[7]) if len(shard) > 6 else (0, 1)
        body = body_factory(ntasks, store, fine, faults, col)
        n = explore_part(body, col, part, nparts, bound=bound, sub="schedule",
                         case_extra={"ntasks": ntasks, "store": store, "fine": fine, "faults": faults})
        col.sample({"tasks": ntasks, "workers": 2, "store": store, "line_level": fine, "faults": faults,
                    "deviation_bound": bound, "executions_in_this_shard": n, "shard": "%d/%d" % (part, nparts)}, 3)
    elif kind == "gradient":
        _, ntasks, failing, bound, part, nparts = shard
        body = gradient_body_factory(ntasks, failing, col)
        n = explore_part(body, col, part, nparts, bound=bound, sub="gradient", case_extra={"ntasks": ntasks, "failing": failing})
        col.sample({"kind": "gradient evaluator in parallel", "designs": ntasks, "failing": failing, "deviation_bound": bound, "executions_in_this_shard": n}, 1)
    elif kind == "free":
        _, ntasks, store, rounds = shard
        free_running(ntasks, store, rounds, col)


def replay(sub, case):
    if sub == "free":
        c = Collector()
        free_running(case["ntasks"], case["store"], case["rounds"], c)
        return [(v["key"], v["message"]) for v in c.violations]
    if sub == "gradient":
        ctx, out = run_once(gradient_body_factory(case["ntasks"], case["failing"]), case["choices"])
        return out
    body = body_factory(case["ntasks"], case["store"], case["fine"], case["faults"])
    ctx, out = run_once(body, case["choices"])
    return out


def run(tier, seed):
    import artap.datastore, joblib  # noqa: F401,E401
    if tier == "thorough":
        shards = [("explore", 2, False, False, False, None), ("explore", 2, True, False, False, 4),
                  ("explore", 3, False, False, False, 4), ("explore", 3, True, False, False, 3),
                  ("explore", 2, False, True, False, 2), ("explore", 2, True, True, False, 2),
                  ("explore", 2, True, False, True, 3), ("explore", 4, True, False, False, 2),
                  ("explore", 2, False, False, "constrained", None), ("explore", 3, True, False, "constrained", 2),
                  ("explore", 2, False, True, "constrained", 2), ("explore", 2, True, False, "extlock", 1), ("explore", 3, True, False, "extlock", 0),
                  ("explore", 0, True, False, False, 0), ("explore", 1, True, False, False, 0), ("explore", 5, True, False, False, 1),
                  ("free", 0, False, 2), ("free", 1, True, 2), ("free", 2, True, 50), ("free", 3, True, 50), ("free", 3, False, 50), ("free", 7, True, 20),
                  ("explore", 9, True, False, False, 1), ("explore", 9, False, False, False, 2), ("explore", 17, False, False, False, 1),
                  ("explore", 33, True, False, False, 0), ("explore", 65, False, False, False, 0), ("explore", 129, True, False, False, 0),
                  ("free", 33, True, 5), ("free", 65, False, 5), ("free", 257, True, 2), ("free", 1025, False, 1),
                  ("explore", 2, True, False, "unregistered", 3), ("explore", 33, True, False, "unregistered", 0), ("explore", 129, True, False, "unregistered", 0),
                  ("explore", 3, True, False, "mixedcls", 2), ("explore", 9, True, False, "mixedcls", 1),
                  ("explore", 4, True, False, "dupvec", 2), ("explore", 3, False, False, "dupvec", 3), ("explore", 3, True, False, "iterator", 2), ("explore", 1, False, False, "iterator", 1),
                  ("explore", 3, True, False, "abort", 2), ("explore", 4, True, False, "abort", 1), ("explore", 2, True, False, "serialise", 3), ("explore", 3, True, False, "serialise", 2),
                  ("explore", 2, False, False, "nppoints", 3), ("explore", 3, True, False, "nppoints", 2)]
    else:
        shards = [("explore", 2, False, False, False, None), ("explore", 2, True, False, False, 3),
                  ("explore", 3, False, False, False, 3), ("explore", 3, True, False, False, 2),
                  ("explore", 2, True, False, True, 1), ("explore", 2, False, True, False, 1),
                  ("explore", 2, False, False, "constrained", 3), ("explore", 3, True, False, "constrained", 1),
                  ("explore", 2, True, False, "extlock", 0),
                  ("explore", 0, True, False, False, 0), ("explore", 1, True, False, False, 0),
                  ("free", 0, False, 2), ("free", 1, True, 2), ("free", 2, True, 10), ("free", 3, False, 10),
                  # batches far larger than the explored ones: default schedule, 9 tasks also with one pre-emption
                  ("explore", 9, True, False, False, 0), ("explore", 9, False, False, False, 1), ("explore", 17, False, False, False, 0),
                  ("explore", 33, True, False, False, 0), ("explore", 65, False, False, False, 0), ("explore", 129, False, False, False, 0),
                  ("free", 33, True, 3), ("free", 65, False, 3), ("free", 257, False, 1),
                  ("explore", 2, True, False, "unregistered", 1), ("explore", 33, True, False, "unregistered", 0), ("explore", 65, True, False, "unregistered", 0),
                  ("explore", 3, True, False, "mixedcls", 1), ("explore", 9, True, False, "mixedcls", 0),
                  ("explore", 4, True, False, "dupvec", 1), ("explore", 3, False, False, "dupvec", 2), ("explore", 3, True, False, "iterator", 1), ("explore", 1, False, False, "iterator", 1),
                  ("explore", 3, True, False, "abort", 1), ("explore", 4, True, False, "abort", 0), ("explore", 2, True, False, "serialise", 2), ("explore", 3, True, False, "serialise", 1),
                  ("explore", 2, False, False, "nppoints", 2), ("explore", 3, True, False, "nppoints", 1)]
    # other worker counts (three and four workers, more workers than designs); the model executor starts no more workers than
    # there are tasks. Larger worker counts are not explored: the order in which idle workers start is a free choice and the
    # number of start orders grows factorially.
    shards += [("explore", 3, True, False, "procs3", 1), ("explore", 4, False, False, "procs3", 1), ("explore", 2, True, False, "procs8", 1),
               ("explore", 5, False, False, "procs4", 1), ("explore", 4, True, False, "procs4", 0)]
    gb = 3 if tier == "thorough" else 2
    shards += [("gradient", 1, False, gb), ("gradient", 1, True, gb), ("gradient", 2, False, gb - 1), ("gradient", 2, True, gb - 1)]
    split = []
    for sh in shards:
        if sh[0] == "gradient":
            split += [sh + (part, 4) for part in range(4)]
            continue
        if sh[0] == "explore":
            split += [sh + (part, 8) for part in range(8)]
        else:
            split.append(sh)
    col = run_shards(_shard, split)
    return col, {"exhaustive": col.counters.get("caps_hit", 0) == 0,
                 "states": len(col.sets.get("states", ())), "transitions": col.counters.get("transitions", 0),
                 "traces_validated_against_impl": col.evaluations}

RULE += (' Beyond small: 9..129 tasks at the default schedule (9 and 17 also with pre-emptions), batches that are not recorded in problem.individuals, batches mixing individual classes, 33..257 (thorough 1025) tasks through real joblib.')

RULE += (" Variants of the batch (same schedules, bound 0-2): designs at repeated points, a one-shot iterator handed to the evaluator, a last design that fails permanently (the call raises after five attempts, what was evaluated stays stored), custom data whose serialisation is a scheduling point, scheduling points after every numpy call of artap.individual, the gradient evaluator (designs and their finite-difference children in one batch, with and without a transient failure of the first design). The model executor follows joblib's contract for `timeout` (a slow task raises TimeoutError in the caller) and `require` (without 'sharedmem' an outer process-based context may run the tasks on pickled copies). Two workers, and three / four workers (also more workers than designs) with <=1 pre-emption.")
