"""C06 -- transient evaluation failures are retried, logged and never recorded as results.

Every pattern of {ok, TimeoutError, RuntimeError, other} over the objective calls of batches of 1 and 2 designs
(unbounded: fault choices are free), re-sampled coordinates at base / 0.0 / 1-2^-53, against a reference retry protocol.
"""
from ..core.common import Collector, run_shards
from ..core.explorer import explore, run_once
from ..core import shim as shim_mod

PROPERTY = "C06"
LEVEL = "fault_enumeration"
RULE = ("each objective call is a free 4-way choice (return, TimeoutError, RuntimeError, a foreign exception: ValueError / FileNotFoundError / ZeroDivisionError / KeyError / OSError depending on the configuration); all patterns over serial batches "
        "of 1 and 2 designs (also two designs at the same point; batches of 3 and 5 with <=3 / <=2 non-default answers) (94 leaves per design incl. exactly 4 and exactly 5 consecutive failures); for one design additionally "
        "re-sampling draws deviating to 0.0 / 1-2^-53 (<=1 deviation per execution; thorough <=2); boxes incl. negative, tiny, huge, with and without declared "
        "precision; the same patterns through the scalar bridge (evaluate_scalar, 1 and 2 calls); an exception zoo (every builtin exception class outside the two families, stdlib / numpy / user-defined classes incl. subprocess.TimeoutExpired) as the answer of attempt 1..5 on both paths; 2 designs on 2 worker threads under the controlled scheduler: every failure pattern (free) x every schedule with <=1 (thorough 2) pre-emptions. Non-trivial = at least one injected failure; "
        "distinct = distinct fault/draw sequences per configuration.")
ASSUMPTIONS = ["the objective's exceptions are raised by the harness wrapper before the objective body runs",
               "in-box tolerance 1e-12 relative, or half the declared precision"]

FAULTS = ("ok", "TimeoutError", "RuntimeError", "other")
# "any other exception": one foreign type per configuration (OSError is the parent class of TimeoutError, LookupError /
# ArithmeticError are common parents of what numerical objectives raise)
FOREIGN = {"unit_surrogate_trained": LookupError, "neg_prec_surrogate_step2": ArithmeticError, "unit": ValueError, "neg_prec": FileNotFoundError, "tiny_huge": ZeroDivisionError, "far_prec": KeyError, "offgrid": OSError}


def zoo():
    """'Any other exception': every builtin exception class outside the TimeoutError / RuntimeError families, exceptions of
    the standard library and numpy that objectives calling external solvers meet, and user-defined classes."""
    import builtins, subprocess, queue, json, sqlite3, pickle, zipfile, socket, shutil, configparser, struct, csv, binascii
    import numpy as np
    special = {
        "UnicodeDecodeError": lambda: UnicodeDecodeError("utf-8", b"x", 0, 1, "injected"),
        "UnicodeEncodeError": lambda: UnicodeEncodeError("utf-8", "x", 0, 1, "injected"),
        "UnicodeTranslateError": lambda: UnicodeTranslateError("x", 0, 1, "injected"),
    }
    out = []
    for name in sorted(dir(builtins)):
        cls = getattr(builtins, name)
        if not (isinstance(cls, type) and issubclass(cls, BaseException)):
            continue
        if issubclass(cls, (TimeoutError, RuntimeError)) or issubclass(cls, Warning) or name in ("BaseExceptionGroup", "ExceptionGroup"):
            continue
        out.append((name, special.get(name, (lambda c: (lambda: c("injected")))(cls))))

    class UserError(Exception):
        pass

    class UserTimeout(Exception):          # looks like a timeout, is none of the two listed classes
        pass

    class UserBase(BaseException):
        pass
    out += [
        ("subprocess.TimeoutExpired", lambda: subprocess.TimeoutExpired("solver", 1.0)),
        ("subprocess.CalledProcessError", lambda: subprocess.CalledProcessError(1, "solver")),
        ("queue.Empty", lambda: queue.Empty()), ("queue.Full", lambda: queue.Full()),
        ("json.JSONDecodeError", lambda: json.JSONDecodeError("injected", "{}", 0)),
        ("sqlite3.OperationalError", lambda: sqlite3.OperationalError("database is locked")),
        ("sqlite3.IntegrityError", lambda: sqlite3.IntegrityError("injected")),
        ("pickle.PicklingError", lambda: pickle.PicklingError("injected")),
        ("pickle.UnpicklingError", lambda: pickle.UnpicklingError("injected")),
        ("zipfile.BadZipFile", lambda: zipfile.BadZipFile("injected")),
        ("socket.gaierror", lambda: socket.gaierror(1, "injected")), ("socket.herror", lambda: socket.herror(1, "injected")),
        ("shutil.Error", lambda: shutil.Error("injected")), ("shutil.SameFileError", lambda: shutil.SameFileError("injected")),
        ("configparser.Error", lambda: configparser.Error("injected")), ("struct.error", lambda: struct.error("injected")),
        ("csv.Error", lambda: csv.Error("injected")), ("binascii.Error", lambda: binascii.Error("injected")),
        ("numpy.linalg.LinAlgError", lambda: np.linalg.LinAlgError("singular")),
        ("UserError", lambda: UserError("injected")), ("UserTimeout", lambda: UserTimeout("injected")),
        ("UserBase", lambda: UserBase("injected")),
    ]
    try:
        from joblib.externals.loky.process_executor import TerminatedWorkerError, BrokenProcessPool
        if not issubclass(BrokenProcessPool, (RuntimeError, TimeoutError)):
            out.append(("loky.BrokenProcessPool", lambda: BrokenProcessPool("injected")))
    except Exception:
        pass
    return out


CONFIGS = {
    # name: (bounds, param_extra)
    "unit": ([[0.0, 1.0], [-5.0, 5.0]], [{}, {}]),
    "neg_prec": ([[-3.0, -1.0], [0.1, 1.0]], [{}, {"precision": 1e-3}]),
    "tiny_huge": ([[0.0, 1e-9], [-1e12, 1e12]], [{}, {}]),
    "far_prec": ([[1e6, 1e6 + 1.0], [0.0, 1.0]], [{"precision": 1e-1}, {"precision": 1e-3}]),
    "offgrid": ([[0.0, 1.6], [0.0, 0.37]], [{"precision": 0.5}, {"precision": 0.05}]),
    # a predicting surrogate (already trained / retrained every second evaluation) sits between Job and the objective
    "unit_surrogate_trained": ([[0.0, 1.0], [-5.0, 5.0]], [{}, {}]),
    "neg_prec_surrogate_step2": ([[-3.0, -1.0], [0.1, 1.0]], [{}, {"precision": 1e-3}]),
}


def f(v):
    return [1.5 * v[0] + 0.25 * v[1] + 0.125]


class Env:
    """One reusable problem/algorithm per configuration and process; per-execution state is reset."""
    _cache = {}

    @classmethod
    def get(cls, cfg):
        if cfg not in cls._cache:
            from artap.algorithm import DummyAlgorithm
            from .c_support import make_problem
            bounds, extra = CONFIGS[cfg]
            env = {"ctx": None, "calls": []}

            def before(problem, individual):
                c = env["ctx"].choose("fault", 4, env.get("fault_price", 0), "objective")
                exc = None
                if c == 1:
                    exc = TimeoutError("injected")
                elif c == 2:
                    exc = RuntimeError("injected")
                elif c == 3:
                    exc = env["foreign"]() if env.get("foreign") else FOREIGN[cfg]("injected")
                env["calls"].append({"ind": individual, "vector": tuple(individual.vector), "outcome": FAULTS[c], "exc": exc})
                if exc is not None:
                    raise exc
            problem = make_problem(n_params=2, bounds=bounds, param_extra=extra, f=f, before=before)
            if "_surrogate_" in cfg:
                from artap.surrogate_scikit import SurrogateModelScikit
                from .c19 import StubScikit
                sur = SurrogateModelScikit(problem)
                sur.regressor = StubScikit()
                sur.trained = cfg.endswith("trained")
                sur.train_step = -1 if cfg.endswith("trained") else 2
                problem.surrogate = sur
            env["problem"] = problem
            env["alg"] = DummyAlgorithm(problem)
            cls._cache[cfg] = env
        return cls._cache[cfg]


def in_box(problem, vec):
    for v, p in zip(vec, problem.parameters):
        lb, ub = p["bounds"]
        tol = max(1e-12 * max(1.0, abs(lb), abs(ub)), p.get("precision", 0.0) / 2.0)
        if not (lb - tol <= v <= ub + tol):
            return False
    return True


def body_factory(cfg, nbatch, extreme, seed, same_vector=False, scalar=False, foreign=None):
    def body(ctx):
        from artap.individual import Individual
        from .c_support import reset_ids
        env = Env.get(cfg)
        problem, alg = env["problem"], env["alg"]
        env["ctx"] = ctx
        env["calls"] = []
        env["fault_price"] = 1 if nbatch >= 3 else 0
        env["foreign"] = foreign
        problem.failed = []
        if "_surrogate_" in cfg:
            problem.surrogate.trained = cfg.endswith("trained")
            problem.surrogate.eval_counter = 0
            problem.surrogate.x_data, problem.surrogate.y_data = [], []
        problem.h_log = []
        problem.individuals = []
        reset_ids()
        sh = shim_mod.install()
        sh.reset(seed, ctx, extreme_values=extreme, price_value=1, flip_decisions=False)
        bounds = CONFIGS[cfg][0]
        batch = []
        for k in range(nbatch):
            if same_vector:  # several designs of one batch at the same point (a repeated design that fails twice is logged twice)
                batch.append(Individual([b[0] + (b[1] - b[0]) * 0.5 for b in bounds]))
            elif extreme:      # designs exactly on the bounds (where clipped children often sit): lower for the first, upper for the second
                batch.append(Individual([b[k % 2] for b in bounds]))
            else:
                batch.append(Individual([b[0] + (b[1] - b[0]) * (0.25 + 0.5 * k / max(1, nbatch)) for b in bounds]))
        start = [tuple(i.vector) for i in batch]
        exc = None
        returned = []
        try:
            if scalar:
                # the scalar bridge used by the SciPy / NLopt wrappers: one design per call, created by the evaluator itself
                for v in start:
                    returned.append(alg.evaluator.evaluate_scalar(list(v)))
            else:
                alg.evaluate(batch)
        except BaseException as e:  # noqa
            exc = e
        finally:
            sh.ctx = None
        calls = env["calls"]
        out = []
        if scalar:
            batch = list(problem.individuals)
            if len(batch) != len(returned) + (1 if exc is not None else 0):
                out.append(("C06:scalar:individuals", "%d scalar calls returned, exception %r, %d individuals attached" % (len(returned), exc, len(batch))))
            for k, r in enumerate(returned):
                if k < len(batch) and batch[k].costs and r != batch[k].costs_signed[0]:
                    out.append(("C06:scalar:returned-value", "call %d returned %r, stored signed cost %r" % (k, r, batch[k].costs_signed[0])))
        desc = "cfg=%s batch=%d outcomes=%r" % (cfg, nbatch, [c["outcome"] for c in calls])

        def bad(key, msg):
            out.append((key, msg + "; " + desc))
        # ---- reference protocol, design by design (serial order) ----
        pos = 0
        failed_exp = []
        stopped = None          # exception that must have reached the caller
        for k, ind in enumerate(batch):
            if stopped is not None:
                if any(c["ind"] is ind for c in calls):
                    bad("C06:call-after-propagation", "design %d was evaluated after an exception had to propagate" % k)
                continue
            mine = []
            while pos < len(calls) and calls[pos]["ind"] is ind:
                mine.append(calls[pos])
                pos += 1
            if not mine:
                bad("C06:design-not-attempted", "design %d saw no objective call" % k)
                break
            if len(mine) > 5:
                bad("C06:more-than-five-attempts", "design %d was attempted %d times" % (k, len(mine)))
            if mine[0]["vector"] != start[k]:
                bad("C06:first-attempt-vector", "design %d first evaluated at %r, not its own vector %r" % (k, mine[0]["vector"], start[k]))
            for j, c in enumerate(mine):
                last = j == len(mine) - 1
                if j > 0 and not in_box(problem, c["vector"]):
                    bad("C06:resampled-out-of-box", "design %d attempt %d at %r outside the box" % (k, j + 1, c["vector"]))
                if c["outcome"] in ("TimeoutError", "RuntimeError"):
                    failed_exp.append(c["vector"])
                    if last and j + 1 < 5:
                        bad("C06:no-retry-after-transient:attempt=%d" % (j + 1), "design %d not retried after attempt %d failed with %s" % (k, j + 1, c["outcome"]))
                    if last and j + 1 >= 5:
                        stopped = "five"
                elif c["outcome"] == "other":
                    if not last:
                        bad("C06:foreign-exception-swallowed:%s" % type(c["exc"]).__name__, "design %d evaluated again after %s" % (k, type(c["exc"]).__name__))
                    stopped = c["exc"]
                else:  # ok
                    if not last:
                        bad("C06:call-after-success", "design %d evaluated again after a successful call" % k)
            final = mine[-1]
            if final["outcome"] == "ok":
                if ind.state != Individual.State.EVALUATED:
                    bad("C06:success-not-evaluated", "design %d state %r after success" % (k, ind.state))
                if tuple(ind.vector) != final["vector"]:
                    bad("C06:stored-vector-not-evaluated-vector", "design %d stores %r, evaluated %r" % (k, ind.vector, final["vector"]))
                if list(ind.costs) != f(list(final["vector"])):
                    bad("C06:costs-not-of-final-vector", "design %d costs %r, f(final vector) = %r" % (k, ind.costs, f(list(final["vector"]))))
            else:
                if ind.state == Individual.State.EVALUATED:
                    bad("C06:failed-design-marked-evaluated:%s" % final["outcome"], "design %d marked evaluated although its last call raised %s" % (k, final["outcome"]))
        if pos < len(calls) and not out:
            bad("C06:unattributed-calls", "%d objective calls on foreign individuals" % (len(calls) - pos))
        # ---- what the caller saw ----
        if stopped is None:
            if exc is not None:
                bad("C06:unexpected-exception:%s" % type(exc).__name__, "caller saw %r" % (exc,))
        elif stopped != "five" and exc is not stopped:
            bad("C06:foreign-exception-not-propagated:%s" % type(stopped).__name__, "objective raised %r, caller saw %r" % (stopped, exc))
        elif stopped == "five":
            if not isinstance(exc, RuntimeError):
                bad("C06:five-failures-no-runtimeerror", "after five consecutive failures the caller saw %r" % (exc,))
        else:
            pass
        # ---- the failed list ----
        got_failed = [tuple(x.vector) for x in problem.failed]
        if got_failed != failed_exp:
            kind = "count" if len(got_failed) != len(failed_exp) else "vector"
            bad("C06:failed-list:%s" % kind, "problem.failed vectors %r, failing vectors %r" % (got_failed, failed_exp))
        elif any(x.state != Individual.State.FAILED for x in problem.failed):
            bad("C06:failed-list:state", "a failed entry is not in state FAILED")
        ctx.digest = (tuple(c["outcome"] for c in calls), type(exc).__name__ if exc else None, len(problem.failed))
        return out
    return body


def _shard(shard, col: Collector):
    if shard[0] == "parallel":
        # failures inside parallel workers: 2 designs on 2 workers under the controlled scheduler (C07's harness)
        from . import c07
        body = c07.body_factory(2, False, False, "free", None)

        def on_exec2(ctx, out):
            if any(c != 0 for c in ctx.choices):
                col.nontrivial(("par", tuple(ctx.choices)))
        explore(body, col, bound=shard[1], sub="parallel", on_exec=on_exec2, case_extra={"bound": shard[1]})
        col.sample({"kind": "parallel workers", "designs": 2, "workers": 2, "deviation_bound (faults + pre-emptions)": shard[1]}, 1)
        return
    if shard[0] == "returns":
        # an objective that RETURNS (a numpy array whose truth value is False, zeros, inf/nan, surplus auxiliary outputs) has not
        # failed: no retry, no re-sampling, nothing logged as failed
        from . import c05
        for kind_ in ("ndarray", "tuple", "zero-list", "nonfinite", "surplus", "npscalar-list", "warns"):
            for parallel in (False, True):
                for via in ("batch", "sweep"):
                    col.case()
                    col.nontrivial(("returns", kind_, parallel, via))
                    for key, msg in c05.check_objective_values(kind_, parallel, via):
                        col.violation(key.replace("C05:objective-values:", "C06:returned-value-treated-as-failure:"), "returns", msg, {"kind": kind_, "parallel": parallel, "via": via})
        col.sample({"kind": "objectives that return unusual values are not failures"}, 1)
        return
    if shard[0] == "bigbatch":
        # batches far larger than the enumerated ones, with a fixed script of transient failures spread over the batch
        _, cfg, seed = shard
        for n in (31, 32, 33, 64, 65, 100, 129, 257):
            for script in (lambda k: 1 if k % 7 == 1 else (2 if k % 11 == 3 else 0), lambda k: 2 if k % 2 == 0 else 0, lambda k: 1 if k in (0, n - 1, n // 2) else 0):
                choices = [script(k) for k in range(n)]
                while choices and choices[-1] == 0:
                    choices.pop()
                col.case()
                col.nontrivial(("bigbatch", cfg, n, tuple(choices)))
                try:
                    ctx, out = run_once(body_factory(cfg, n, False, seed), choices)
                except Exception as e:
                    if type(e).__name__ != "ReplayDivergence":
                        raise
                    out = [("C06:fewer-objective-calls-than-the-protocol-prescribes", "scripted failures for %d designs: %s" % (n, e))]
                for key, msg in out:
                    col.violation(key + ":large-batch", "bigbatch", msg[:400], {"cfg": cfg, "n": n, "choices": choices, "seed": seed})
        if cfg == "unit":
            # more than a thousand logged failures in one run (260 designs failing four times each, 130 failing twice)
            for n, k in ((260, 4), (130, 2), (513, 2)):
                choices = []
                for d in range(n):
                    choices += [1 + (d + j) % 2 for j in range(k)] + [0]
                col.case()
                col.nontrivial(("manyfail", n, k))
                try:
                    ctx, out = run_once(body_factory(cfg, n, False, seed), choices)
                except Exception as e:
                    if type(e).__name__ != "ReplayDivergence":
                        raise
                    out = [("C06:fewer-objective-calls-than-the-protocol-prescribes", "%d designs failing %d times each: %s" % (n, k, e))]
                for key, msg in out:
                    col.violation(key + ":many-failures", "bigbatch", msg[:400], {"cfg": cfg, "n": n, "choices": choices, "seed": seed})
        col.sample({"kind": "large batches with scripted failures", "config": cfg, "sizes": [31, 33, 65, 257]}, 1)
        return
    if shard[0] == "worst":
        # the same protocol under the worst-case evaluator: a design that fails 1..4 times is re-sampled, and what is finally
        # stored (objective value AND sensitivity, neighbours) belongs to the finally stored vector
        from . import c14
        for n in (1, 2):
            for bs in ((1,), (2,), (1, 1)):
                for fc in ((0,), (0, 1), (0, 1, 2), (0, 1, 2, 3)):
                    for crit in ("minimize", "maximize"):
                        col.case()
                        col.nontrivial(("worst", n, bs, fc, crit))
                        for key, msg in c14.check_worst(n, 1, (0.5,) * n, "sumsq", crit, bs, fc):
                            col.violation(key.replace("C14:worst:", "C06:worst-case-evaluator:"), "worst", msg,
                                          {"n": n, "batches": bs, "fail_calls": fc, "crit": crit})
        col.sample({"kind": "worst-case evaluator, failing designs", "fail_calls": [0, 1, 2]}, 1)
        return
    if shard[0] == "zoo":
        # every member of the exception zoo as the answer of attempt 1..5 (after 0..4 transient failures), array and scalar path
        zcfg = shard[2] if len(shard) > 2 else "unit"
        for name, make in zoo():
            for scalar in (False, True):
                for j in range(5):
                    for t in ((1, 2) if j else (1,)):
                        choices = [t if i % 2 == 0 else 3 - t for i in range(j)] + [3]
                        col.case()
                        col.nontrivial(("zoo", zcfg, name, scalar, j, t))
                        try:
                            ctx, out = run_once(body_factory(zcfg, 1, False, shard[1], False, scalar, make), choices)
                        except Exception as e:
                            if type(e).__name__ != "ReplayDivergence":
                                raise
                            out = [("C06:fewer-objective-calls-than-the-protocol-prescribes", str(e))]
                        for key, msg in out:
                            col.violation(key + ":zoo" + ("" if zcfg == "unit" else ":behind-a-predicting-surrogate"), "zoo",
                                          "%s as answer of attempt %d (%s, configuration %s): %s" % (name, j + 1, "scalar" if scalar else "batch", zcfg, msg),
                                          {"name": name, "scalar": scalar, "choices": choices, "seed": shard[1], "cfg": zcfg})
        col.sample({"kind": "exception zoo", "classes": len(zoo()), "attempt": "1..5", "paths": ["batch", "scalar"]}, 1)
        return
    cfg, nbatch, extreme, bound, seed = shard[:5]
    same_vector = len(shard) > 5 and shard[5]
    scalar = len(shard) > 6 and shard[6]
    body = body_factory(cfg, nbatch, extreme, seed, same_vector, scalar)

    def on_exec(ctx, out):
        if any(c != 0 for c in ctx.choices):
            col.nontrivial((cfg, nbatch, extreme, same_vector, tuple(ctx.choices)))
    explore(body, col, bound=bound, sub="faults", on_exec=on_exec,
            case_extra={"cfg": cfg, "nbatch": nbatch, "extreme": extreme, "seed": seed, "same_vector": same_vector, "scalar": scalar})
    col.sample({"config": cfg, "batch": nbatch, "resample_extremes": extreme,
                "example_pattern": ["TimeoutError", "RuntimeError", "RuntimeError", "TimeoutError", "ok"]}, 1)


def replay(sub, case):
    if sub == "parallel":
        from . import c07
        ctx, out = run_once(c07.body_factory(2, False, False, "free", None), case["choices"])
        return out
    if sub == "returns":
        from . import c05
        return [(k.replace("C05:objective-values:", "C06:returned-value-treated-as-failure:"), m) for k, m in c05.check_objective_values(case["kind"], case["parallel"], case["via"])]
    if sub == "bigbatch":
        ctx, out = run_once(body_factory(case["cfg"], case["n"], False, case["seed"]), case["choices"])
        return out
    if sub == "worst":
        from . import c14
        return [(k.replace("C14:worst:", "C06:worst-case-evaluator:"), m) for k, m in
                c14.check_worst(case["n"], 1, (0.5,) * case["n"], "sumsq", case["crit"], tuple(case["batches"]), tuple(case["fail_calls"]))]
    if sub == "zoo":
        make = dict(zoo())[case["name"]]
        ctx, out = run_once(body_factory(case.get("cfg", "unit"), 1, False, case["seed"], False, case["scalar"], make), case["choices"])
        return out
    body = body_factory(case["cfg"], case["nbatch"], case["extreme"], case["seed"], case.get("same_vector", False), case.get("scalar", False))
    ctx, out = run_once(body, case["choices"])
    return out


def run(tier, seed):
    shards = []
    for cfg in CONFIGS:
        shards.append((cfg, 1, False, None, seed))
        shards.append((cfg, 1, True, 2 if tier == "thorough" else 1, seed))
    shards.append(("unit", 2, False, None, seed))
    shards.append(("far_prec", 2, False, None, seed, True))
    shards.append(("unit", 5, False, 2, seed))            # a larger batch: every pattern with <= 2 non-default answers
    shards.append(("unit", 3, False, 3, seed, True))
    shards.append(("neg_prec", 2, False, None, seed))
    shards.append(("parallel", 2 if tier == "thorough" else 1))
    shards.append(("zoo", seed))
    shards.append(("zoo", seed, "neg_prec_surrogate_step2"))      # the same zoo with a predicting surrogate wrapper between Job and the objective
    shards.append(("worst",))
    shards.append(("returns",))
    shards.append(("bigbatch", "unit", seed))
    shards.append(("bigbatch", "offgrid", seed))
    shards.append(("unit_surrogate_trained", 2, False, None, seed))
    shards.append(("neg_prec_surrogate_step2", 2, False, None, seed))
    shards.append(("unit", 1, False, None, seed, False, True))      # the scalar bridge: every pattern for 1 and 2 calls
    shards.append(("neg_prec", 2, False, None, seed, False, True))
    shards.append(("far_prec", 1, True, 1, seed, False, True))
    if tier == "thorough":
        shards.append(("tiny_huge", 2, False, None, seed))
        shards.append(("far_prec", 2, False, None, seed))
        shards.append(("unit", 2, True, 1, seed + 1))
    col = run_shards(_shard, shards)
    return col, {"exhaustive": col.counters.get("caps_hit", 0) == 0, "fault_alphabet": FAULTS, "configs": list(CONFIGS)}

RULE += (' Beyond small: batches of 31..257 with scripted failures, 260 x 4 and 513 x 2 failures in one run (more than a thousand logged); objectives that return unusual values are not failures.')
RULE += (' The exception zoo is also raised behind a predicting surrogate wrapper (scikit wrapper with a stub regressor, retraining every second evaluation).')
