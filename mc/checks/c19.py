"""C19 -- surrogate wrapper: true values unless predicting; exact accounting.

Every sequence of evaluation requests to a bounded depth x every accept/decline answer of the predict hook, for every
train_step / initially-trained / hook-present configuration of both predicting wrappers and the pass-through wrapper,
in lockstep with a six-line reference automaton.
"""
from ..core.common import Collector, run_shards
from ..core.explorer import explore, run_once

PROPERTY = "C19"
LEVEL = "model_checking"
RULE = ("all request sequences of depth D (quick 7, thorough 10) x all predict-hook answers (accept/decline, a free choice at every "
        "consultation) x train_step in {-1,1,2,3} five schedules in which the user changes train_step after j requests, four with a training set loaded beforehand x initially trained or not x hook present or absent x {SurrogateModelScikit, "
        "SurrogateModelSMT with stub regressors; SurrogateModelEval}. After every request the implementation state (trained, "
        "eval_counter, predict_counter, training set, fit calls, returned object) is compared with the reference automaton. "
        "states = distinct canonical implementation states reached; transitions = distinct (state, answer) steps; "
        "distinct_nontrivial = distinct (configuration, answer sequence) executions that contain a prediction or a training.")
ASSUMPTIONS = ["the regressor is a stub honouring fit/score/predict (scikit) resp. set_training_values/train/options (SMT); "
               "the real regressors' numerical behaviour is not part of the property",
               "request vectors repeat with period 3, so both the order of the training set and the handling of repeated designs are observable",
               "retraining is due at a true evaluation whose running count is a multiple of the train_step in force at that moment"]


class StubScikit:
    def __init__(self):
        self.fits = []

    def fit(self, x, y):
        self.fits.append((len(x), len(y)))

    def score(self, x, y):
        return 1.0

    def predict(self, x, **kw):
        return [[0.0]]


class StubSMT:
    def __init__(self):
        self.fits = []
        self.options = {}
        self._n = None

    def set_training_values(self, x, y):
        self._n = (len(x), len(y))

    def train(self):
        self.fits.append(self._n)

    def predict_values(self, x):
        return [[0.0]]


WEIRD = (1.5, float("inf"), 2.5, float("nan"), float("-inf"), 1.7976931348623157e308, 0.0, -0.0, 5e-324)


def make(wrapper, step, trained0, hook, weird=False):
    from .c_support import make_problem
    state = {"ctx": None, "returned": [], "k": 0}

    def f(v):
        r = [v[0] * v[0] + 1.0]
        if weird:        # objective values a failed or degenerate computation produces: still "the true objective value"
            r = [WEIRD[len(state["returned"]) % len(WEIRD)]]
        state["returned"].append(r)
        return r

    def predict(problem, individual):
        c = state["ctx"].choose("hook", 2, 0, "predict")
        state["asked"] = state.get("asked", 0) + 1
        return [1000.0 + individual.vector[0]] if c == 0 else None

    kw = dict(n_params=1, f=f)
    if hook:
        kw["predict"] = predict
    problem = make_problem(**kw)
    if wrapper == "eval":
        from artap.surrogate import SurrogateModelEval
        s = SurrogateModelEval(problem)
        stub = None
    elif wrapper == "scikit":
        from artap.surrogate_scikit import SurrogateModelScikit
        s = SurrogateModelScikit(problem)
        stub = StubScikit()
    else:
        from artap.surrogate_smt import SurrogateModelSMT
        s = SurrogateModelSMT(problem)
        stub = StubSMT()
    if stub is not None:
        s.regressor = stub
        s.train_step = step
        s.trained = trained0
    problem.surrogate = s
    return problem, s, stub, state


def body_factory(wrapper, step, trained0, hook, depth, col):
    """step: an int, or ("switch", j, s1, s2): train_step is s1 for the first j requests and is then set to s2 by the user
    (as artap's own surrogate example does after its DoE phase)."""
    schedule = step if isinstance(step, tuple) and step[0] == "switch" else None
    preload = step[1] if isinstance(step, tuple) and step[0] in ("preload", "preload_store") else 0
    via_store = isinstance(step, tuple) and step[0] == "preload_store"
    premarked = isinstance(step, tuple) and step[0] == "evaluated"
    if premarked:
        step = step[1]
    nostats = isinstance(step, tuple) and step[0] == "nostats"        # the wrapper's eval_stats option switched off
    if nostats:
        step = step[1]
    weird = isinstance(step, tuple) and step[0] == "weird"
    if weird:
        step = step[1]
    if preload:
        step = step[2]
    if schedule is not None:
        step = schedule[2]

    def body(ctx):
        step = schedule[2] if schedule is not None else body.step
        from artap.individual import Individual
        problem, s, stub, st = make(wrapper, step, trained0, hook, weird)
        if nostats:
            s.eval_stats = False
        st["ctx"] = ctx
        out = []
        # reference automaton
        r_tr, r_ev, r_pr, r_data, r_fits = (trained0 if wrapper != "eval" else True), 0, 0, [], 0
        if via_store:                     # the documented warm start: the problem's recorded individuals become training data
            problem.individuals = []
            for j in range(preload):
                old = Individual([9.0 + j])
                old.costs = [81.0 + j]
                old.state = Individual.State.EVALUATED
                problem.individuals.append(old)
            s.read_from_data_store()
            r_data.extend(9.0 + j for j in range(preload))
        else:
            for j in range(preload):          # a training set loaded beforehand (add_data): data, not evaluations
                s.add_data([9.0 + j], [81.0 + j])
                r_data.append(9.0 + j)
        trace = []
        interesting = False
        for k in range(depth):
            if schedule is not None and k == schedule[1]:
                step = schedule[3]
                s.train_step = step
            # vectors repeat with period 3 (the same design requested again), so a training set that drops or merges
            # repeated points is observable
            x = [0.125 * ((k % 3) + 1)]
            ind = Individual(list(x))
            if premarked and k % 3 == 1:
                # the request carries an individual that already holds (stale) results: still a request
                ind.state = Individual.State.EVALUATED
                ind.costs = [999.0]
                ind.costs_signed = [999.0, True]
            n_calls = len(problem.h_log)
            n_ret = len(st["returned"])
            asked0 = st.get("asked", 0)
            pre = (s.trained, s.eval_counter, s.predict_counter)
            try:
                val = problem.surrogate.evaluate(ind)
            except Exception as e:
                out.append(("C19:%s:exception:%s" % (wrapper, type(e).__name__), "request %d raised %r (trace %r)" % (k, e, trace)))
                break
            asked = st.get("asked", 0) - asked0
            answer = None
            if asked:
                answer = "accept" if ctx.choices[-1] == 0 else "decline"
            # advance the reference
            if wrapper == "eval":
                r_ev += 1
                exp_eval = True
            elif r_tr and hook and answer == "accept":
                r_pr += 1
                exp_eval = False
            else:
                r_ev += 1
                r_data.append(x[0])
                if step != -1 and r_ev % step == 0:
                    r_fits += 1
                    r_tr = True
                exp_eval = True
            trace.append((k, answer, "eval" if exp_eval else "predict"))
            desc = "%s step=%r trained0=%r hook=%r trace=%r" % (wrapper, step, trained0, hook, trace)
            calls = len(problem.h_log) - n_calls
            if wrapper != "eval" and hook and pre[0] != (asked > 0):
                out.append(("C19:%s:hook-consultation:%s" % (wrapper, "untrained" if not pre[0] else "trained"),
                            "predict hook consulted %d times while trained=%r; %s" % (asked, pre[0], desc)))
            if calls != (1 if exp_eval else 0):
                out.append(("C19:%s:objective-calls" % wrapper, "objective called %d times, expected %d; %s" % (calls, 1 if exp_eval else 0, desc)))
            if exp_eval:
                if calls >= 1 and val is not st["returned"][n_ret]:
                    out.append(("C19:%s:value-not-returned-unchanged" % wrapper, "returned %r is not the objective's result; %s" % (val, desc)))
            else:
                if val != [1000.0 + x[0]]:
                    out.append(("C19:%s:prediction-discarded" % wrapper, "returned %r instead of the hook's answer; %s" % (val, desc)))
            if (s.eval_counter, s.predict_counter) != (r_ev, r_pr):
                out.append(("C19:%s:counters" % wrapper, "eval/predict counters %r, reference %r; %s" % ((s.eval_counter, s.predict_counter), (r_ev, r_pr), desc)))
            if s.eval_counter + s.predict_counter != k + 1:
                out.append(("C19:%s:counters-sum" % wrapper, "counters add up to %d after %d requests; %s" % (s.eval_counter + s.predict_counter, k + 1, desc)))
            if wrapper != "eval":
                xd = [v[0] for v in s.x_data]
                if xd != r_data or len(s.y_data) != len(r_data) or any(y is not None and repr(list(y)) != repr(list(r)) for y, r in zip(list(s.y_data)[preload:], st["returned"])):
                    out.append(("C19:%s:training-set" % wrapper, "x_data %r y_data %r, reference xs %r; %s" % (s.x_data, s.y_data, r_data, desc)))
                if len(stub.fits) != r_fits:
                    kind = "never" if step == -1 else "step"
                    out.append(("C19:%s:fit-calls:%s" % (wrapper, kind), "%d fit calls, reference %d; %s" % (len(stub.fits), r_fits, desc)))
                elif stub.fits and stub.fits[-1] != (len(r_data), len(r_data)) and exp_eval and step != -1 and r_ev % step == 0:
                    out.append(("C19:%s:fit-data" % wrapper, "fit saw %r samples, training set has %d; %s" % (stub.fits[-1], len(r_data), desc)))
                if bool(s.trained) != r_tr:
                    out.append(("C19:%s:trained-flag" % wrapper, "trained=%r, reference %r; %s" % (s.trained, r_tr, desc)))
            canon = (wrapper, step, hook, bool(s.trained), s.eval_counter, s.predict_counter, len(s.x_data), len(stub.fits) if stub else 0)
            col.add_to("states", canon)
            col.add_to("transitions", (pre, answer, canon))
            if not exp_eval or (wrapper != "eval" and r_fits):
                interesting = True
            if out:
                break
        ctx.digest = (tuple(trace), s.eval_counter, s.predict_counter)
        if interesting:
            col.nontrivial((wrapper, schedule or (preload, step, weird, premarked, via_store, nostats), trained0, hook, tuple(ctx.choices)))
        return out
    body.step = step
    return body


def check_through_job(wrapper, step, parallel):
    """Requests as they arrive in a run: Algorithm.evaluate -> Job -> surrogate. The training set holds the true objective
    values, unchanged (no rounding), in request order; counters add up."""
    from artap.algorithm import DummyAlgorithm
    from artap.individual import Individual
    problem, s, stub, st = make(wrapper, step, False, False)
    xs = [0.1234567891234, 0.5000000049, 3e-5, 0.777777777777, 0.25, 0.999999999]
    batch = [Individual([x]) for x in xs]
    alg = DummyAlgorithm(problem)
    from ..core.sched import default_parallel
    import contextlib
    try:
        with (default_parallel() if parallel else contextlib.nullcontext()):
            if parallel:
                alg.options['max_processes'] = 2
            alg.evaluate(batch)
    except Exception as e:
        return [("C19:%s:through-job:exception:%s" % (wrapper, type(e).__name__), "raised %r" % (e,))]
    out = []
    desc = "%s step=%r, six requests through Algorithm.evaluate (parallel=%r)" % (wrapper, step, parallel)
    true = [[x * x + 1.0] for x in xs]
    if wrapper != "eval":
        got = sorted(([float(v[0]) for v in [xx]][0], [repr(float(c)) for c in yy]) for xx, yy in zip(s.x_data, s.y_data))
        want = sorted((x, [repr(float(c)) for c in t]) for x, t in zip(xs, true))
        if got != want:
            out.append(("C19:%s:through-job:training-set-not-the-true-values" % wrapper, "training set %r, true pairs %r; %s" % (got[:3], want[:3], desc)))
        if len(stub.fits) != (0 if step == -1 else len(xs) // step):
            out.append(("C19:%s:through-job:fit-calls" % wrapper, "%d fit calls for %d evaluations; %s" % (len(stub.fits), len(xs), desc)))
    if s.eval_counter + s.predict_counter != len(xs):
        out.append(("C19:%s:through-job:counters-sum" % wrapper, "counters add up to %d after %d requests; %s" % (s.eval_counter + s.predict_counter, len(xs), desc)))
    for ind, t in zip(batch, true):
        if [repr(float(c)) for c in ind.costs] != [repr(float(c)) for c in t]:
            out.append(("C19:%s:through-job:value-not-returned-unchanged" % wrapper, "design %r got costs %r, the objective's value is %r; %s" % (list(ind.vector), list(ind.costs), t, desc)))
            break
    return out


def check_two_wrappers(w1, step1, w2, step2, depth):
    """Two independent surrogate wrappers (two problems) receive requests alternately; each must behave as if alone."""
    from artap.individual import Individual
    out = []
    objs = []
    for w, st in ((w1, step1), (w2, step2)):
        problem, s, stub, state = make(w, st, False, False)
        objs.append((problem, s, stub, st, w, [0, 0, []]))      # evals, fits, data
    for k in range(depth):
        for problem, s, stub, st, w, ref in objs:
            x = [0.125 * ((k % 4) + 1) + (0.01 if w == w2 and st == step2 else 0.0)]
            problem.surrogate.evaluate(Individual(list(x)))
            ref[0] += 1
            ref[2].append(x[0])
            if st != -1 and ref[0] % st == 0:
                ref[1] += 1
            if (s.eval_counter, s.predict_counter) != (ref[0], 0) or [v[0] for v in s.x_data] != ref[2] or len(stub.fits) != ref[1]:
                out.append(("C19:two-wrappers:objects-influence-each-other",
                            "wrappers %s(step %r) and %s(step %r) used alternately: after %d requests the %s(step %r) wrapper has counters %r, %d training points, %d fits; alone it would have %r, %d, %d" % (
                                w1, step1, w2, step2, k + 1, w, st, (s.eval_counter, s.predict_counter), len(s.x_data), len(stub.fits), (ref[0], 0), len(ref[2]), ref[1])))
                return out
    return out


def _shard(shard, col: Collector):
    if shard[0] == "viajob":
        for wrapper in ("eval", "scikit", "smt"):
            for step in ((-1,) if wrapper == "eval" else (-1, 1, 2, 3)):
                for parallel in (False, True):
                    col.case()
                    col.nontrivial(("viajob", wrapper, step, parallel))
                    for key, msg in check_through_job(wrapper, step, parallel):
                        col.violation(key, "viajob", msg, {"wrapper": wrapper, "step": step, "parallel": parallel})
        col.sample({"kind": "requests through Algorithm.evaluate and Job"}, 1)
        return
    if shard[0] == "two":
        for (w1, s1, w2, s2) in (("scikit", 2, "scikit", 3), ("scikit", 1, "smt", -1), ("smt", 2, "scikit", 2), ("smt", 3, "smt", 1)):
            col.case()
            col.nontrivial(("two", w1, s1, w2, s2))
            for key, msg in check_two_wrappers(w1, s1, w2, s2, shard[1]):
                col.violation(key, "two", msg, {"w1": w1, "s1": s1, "w2": w2, "s2": s2, "depth": shard[1]})
        col.sample({"kind": "two wrappers served alternately", "depth": shard[1]}, 1)
        return
    wrapper, step, trained0, hook, depth = shard
    body = body_factory(wrapper, step, trained0, hook, depth, col)
    explore(body, col, bound=None, sub="requests",
            case_extra={"wrapper": wrapper, "step": step, "trained0": trained0, "hook": hook, "depth": depth})
    col.sample({"wrapper": wrapper, "train_step": step, "initially_trained": trained0, "hook": hook, "depth": depth,
                "answers": "every accept/decline sequence"}, 1)


def replay(sub, case):
    if sub == "viajob":
        return check_through_job(case["wrapper"], case["step"], case["parallel"])
    if sub == "two":
        return check_two_wrappers(case["w1"], case["s1"], case["w2"], case["s2"], case["depth"])
    col = Collector()
    step = case["step"]
    if isinstance(step, list):
        step = tuple(step)
    body = body_factory(case["wrapper"], step, case["trained0"], case["hook"], case["depth"], col)
    ctx, out = run_once(body, case["choices"])
    return out


def run(tier, seed):
    depth = 10 if tier == "thorough" else 7
    import artap.surrogate_scikit, artap.surrogate_smt  # noqa: F401  (import once, before the workers fork)
    shards = [("eval", -1, True, False, depth), ("eval", -1, True, True, depth)]
    for wrapper in ("scikit", "smt"):
        for step in (-1, 1, 2, 3) + ((5,) if tier == "thorough" else ()):
            for trained0 in (False, True):
                for hook in (False, True):
                    shards.append((wrapper, step, trained0, hook, depth))
        for pre in (("preload", 1, 2), ("preload", 3, 5), ("preload", 2, 3), ("preload", 4, 1)):
            for hook in (False, True):
                shards.append((wrapper, pre, False, hook, depth if not hook else min(depth, 7)))
        for sched in (("switch", 3, -1, 2), ("switch", 5, -1, 4), ("switch", 4, 3, 2), ("switch", 2, 2, 3), ("switch", 3, 2, -1)):
            for hook in (False, True):
                shards.append((wrapper, sched, False, hook, depth))
    for wrapper in ("scikit", "smt"):          # objective values inf / nan / extreme: returned unchanged and recorded like any other
        for step in (-1, 1, 2, 3):
            shards.append((wrapper, ("weird", step), False, False, 20))
            shards.append((wrapper, ("weird", step), True, True, depth))
    shards.append(("eval", ("weird", -1), True, False, 12))
    for wrapper in ("scikit", "smt"):
        for step in (-1, 1, 2, 3):
            shards.append((wrapper, ("evaluated", step), False, False, 12))
            shards.append((wrapper, ("evaluated", step), True, True, min(depth, 7)))
        for pre in (("preload_store", 3, 5), ("preload_store", 1, 2), ("preload_store", 4, 3), ("preload_store", 2, -1)):
            for hook in (False, True):
                shards.append((wrapper, pre, False, hook, 12 if not hook else min(depth, 7)))
    shards.append(("eval", ("evaluated", -1), True, False, 9))
    shards.append(("eval", ("nostats", -1), True, False, 9))
    for wrapper in ("scikit", "smt"):
        # (with eval_stats off the scikit wrapper cannot retrain at all -- its train() compares a score it has not computed --
        # which no clause of the statement covers; the option is exercised where no retraining is due)
        for step in ((-1,) if wrapper == "scikit" else (-1, 2)):
            shards.append((wrapper, ("nostats", step), True, True, min(depth, 7)))
            shards.append((wrapper, ("nostats", step), False, False, 12))
    shards.append(("two", 12))
    shards.append(("viajob",))
    for wrapper in ("scikit", "smt"):          # hundreds to a thousand stored samples: the retraining rule does not change with the size of the training set
        for step in (1, 7, 100, 500):
            shards.append((wrapper, step, False, False, 1100))
    for wrapper in ("scikit", "smt"):          # long request sequences (no hook: one execution each)
        for step in (1, 2, 3, 4, 5, 7, 10, -1):
            shards.append((wrapper, step, False, False, 40))
            shards.append((wrapper, step, True, False, 40))
    col = run_shards(_shard, shards)
    states = len(col.sets.get("states", ()))
    trans = len(col.sets.get("transitions", ()))
    return col, {"exhaustive": True, "states": states, "transitions": trans,
                 "traces_validated_against_impl": col.evaluations, "depth": depth}


RULE += (' Requests carrying an individual already marked evaluated (every third request); training set loaded by read_from_data_store (four preload/step combinations).')

RULE += (' Beyond small: 1100 requests for train_step 1, 7, 100, 500; requests through Algorithm.evaluate and Job (serial and parallel): the training set holds the unrounded true values.')
