"""Ownership of artap's randomness.

After importing artap, install() walks every loaded artap.* module and rebinds
  (a) globals that ARE the `random` module          -> the shim object,
  (b) globals that are bound methods of random._inst -> the shim's method of the same name,
so `import random` and `from random import uniform` are both captured. With no active context the shim is a plain
seeded generator; with a context (explorer.Ctx) attached, each draw is a choice point:

  decision  a draw compared on the same source line (`if random.random() <= p:`): options base / just-above-low / just-below-high
  pick      random.sample / random.choice: option 0 = base-stream pick, others rotate through all alternatives
  value     any other continuous draw: base-stream value; boundary values only when `extreme_values` is enabled
"""
import linecache
import random as _random
import re
import sys

_ONE_MINUS = 1.0 - 2.0 ** -53
_LOW = 2.0 ** -53

_CMP_RE = re.compile(r"(random\.random\(\)|random\.uniform\([^)]*\)|uniform\([^)]*\)|random\(\))\s*(<=|<|>=|>)")


class DrawBudgetExceeded(RuntimeError):
    """artap consumed far more random draws than any terminating execution of the harness can need (a livelock,
    e.g. an offspring loop that rejects every child). Reported by the checks as a violation, never swallowed."""


class RandomShim:
    def __init__(self):
        self.max_draws = 5000
        self.ctx = None
        self.base = _random.Random(0)
        self.extreme_values = False      # offer boundary options for `value` draws
        self.flip_decisions = True       # offer low/high options for `decision` draws
        self.enumerate_picks = True      # offer all alternatives for sample/choice
        self.price_decision = 1
        self.price_pick = 1
        self.price_value = 1
        self.draws = 0
        self.value_options = (0.0, _ONE_MINUS)
        self._kind_cache = {}

    # -- configuration --------------------------------------------------------------------------
    def reset(self, seed, ctx=None, **cfg):
        self.base = _random.Random(seed)
        self.ctx = ctx
        self.draws = 0
        self.extreme_values = cfg.get("extreme_values", False)
        self.flip_decisions = cfg.get("flip_decisions", True)
        self.enumerate_picks = cfg.get("enumerate_picks", True)
        self.price_decision = cfg.get("price_decision", 1)
        self.price_pick = cfg.get("price_pick", 1)
        self.price_value = cfg.get("price_value", 1)
        self.value_options = cfg.get("value_options", (0.0, _ONE_MINUS))
        self.max_draws = cfg.get("max_draws", 5000)

    # -- classification ---------------------------------------------------------------------------
    def _caller_kind(self):
        f = sys._getframe(2)
        while f is not None and f.f_globals.get("__name__") == __name__:
            f = f.f_back
        key = (f.f_code.co_filename, f.f_lineno)
        k = self._kind_cache.get(key)
        if k is None:
            line = linecache.getline(*key)
            k = "decision" if ("if " in line and _CMP_RE.search(line)) else "value"
            self._kind_cache[key] = k
        return k, key

    def _unit(self):
        """A number in [0,1): the owned replacement of random.random()."""
        self.draws += 1
        if self.draws > self.max_draws:
            raise DrawBudgetExceeded("more than %d random draws in one execution" % self.max_draws)
        b = self.base.random()
        ctx = self.ctx
        if ctx is None:
            return b
        force = getattr(ctx, "force_unit", None)
        if force is not None:
            return force(b)
        kind, key = self._caller_kind()
        label = "%s:%d" % (key[0].rsplit("/", 1)[-1], key[1])
        if kind == "decision":
            if not self.flip_decisions:
                return b
            c = ctx.choose("decision", 3, self.price_decision, label)
            return (b, _LOW, _ONE_MINUS)[c]
        if not self.extreme_values:
            return b
        opts = self.value_options
        c = ctx.choose("value", 1 + len(opts), self.price_value, label)
        return b if c == 0 else opts[c - 1]

    # -- the random-module surface used by artap ---------------------------------------------------
    def random(self):
        return self._unit()

    def uniform(self, a, b):
        return a + (b - a) * self._unit()

    def _pick_index(self, n, label):
        self.draws += 1
        if self.draws > self.max_draws:
            raise DrawBudgetExceeded("more than %d random draws in one execution" % self.max_draws)
        b = self.base.randrange(n)
        ctx = self.ctx
        if ctx is None or not self.enumerate_picks or n <= 1:
            return b
        force = getattr(ctx, "force_pick", None)
        if force is not None:
            return force(label, n)
        c = ctx.choose("pick", n, self.price_pick, label)
        return (b + c) % n

    def choice(self, seq):
        if len(seq) == 0:
            raise IndexError("Cannot choose from an empty sequence")
        return seq[self._pick_index(len(seq), "choice")]

    def sample(self, population, k):
        import itertools
        population = list(population)
        if k > len(population) or k < 0:
            raise ValueError("Sample larger than population or is negative")
        if k == 2:
            n = len(population)
            idx = self._pick_index(n * (n - 1), "sample2")
            i, j = divmod(idx, n - 1)
            if j >= i:
                j += 1
            return [population[i], population[j]]
        perms = list(itertools.permutations(range(len(population)), k))
        return [population[i] for i in perms[self._pick_index(len(perms), "sample%d" % k)]]

    def randint(self, a, b):
        return a + self._pick_index(b - a + 1, "randint")

    def randrange(self, *a):
        r = range(*a)
        return r[self._pick_index(len(r), "randrange")]

    def shuffle(self, x):
        for i in reversed(range(1, len(x))):
            j = self._pick_index(i + 1, "shuffle")
            x[i], x[j] = x[j], x[i]

    def gauss(self, mu, sigma):
        self.draws += 1
        return self.base.gauss(mu, sigma)

    normalvariate = gauss

    # numpy's legacy global generator, as far as artap's own modules bind it by name (utils: `from numpy.random import normal`)
    def np_normal(self, loc=0.0, scale=1.0, size=None):
        if size is not None or hasattr(loc, "__len__") or hasattr(scale, "__len__"):
            import numpy as np
            shape = np.broadcast(np.asarray(loc), np.asarray(scale)).shape if size is None else size
            z = np.array([self.base.gauss(0.0, 1.0) for _ in range(int(np.prod(shape)) if shape != () else 1)]).reshape(shape)
            self.draws += z.size
            return loc + scale * z
        self.draws += 1
        if self.draws > self.max_draws:
            raise DrawBudgetExceeded("more than %d random draws in one execution" % self.max_draws)
        b = loc + scale * self.base.gauss(0.0, 1.0)
        ctx = self.ctx
        if ctx is None or not self.extreme_values or getattr(ctx, "force_unit", None) is not None:
            return b
        # a normal variate is unbounded: the environment may answer four standard deviations out on either side
        c = ctx.choose("value", 3, self.price_value, "numpy.normal")
        return (b, loc - 4.0 * scale, loc + 4.0 * scale)[c]

    def np_uniform(self, low=0.0, high=1.0, size=None):
        if size is not None:
            import numpy as np
            n = int(np.prod(size))
            self.draws += n
            return low + (high - low) * np.array([self.base.random() for _ in range(n)]).reshape(size)
        return low + (high - low) * self._unit()

    def seed(self, *a):
        pass

    def __getattr__(self, name):   # anything else: fail loudly rather than leak to the real generator
        raise AttributeError("RandomShim: artap used random.%s which the harness does not own" % name)


SHIM = RandomShim()
_installed = set()


def install():
    """Rebind the random sources of every loaded artap module to SHIM (idempotent)."""
    inst = _random._inst
    try:
        import numpy.random as _npr
        np_inst = _npr.mtrand._rand
    except Exception:
        np_inst = None
    for name, mod in list(sys.modules.items()):
        if mod is None or not (name == "artap" or name.startswith("artap.")):
            continue
        if name in _installed:
            continue
        _installed.add(name)
        for gname, val in list(vars(mod).items()):
            if val is _random:
                setattr(mod, gname, SHIM)
            elif getattr(val, "__self__", None) is inst and hasattr(SHIM, getattr(val, "__name__", "")):
                setattr(mod, gname, getattr(SHIM, val.__name__))
            elif np_inst is not None and getattr(val, "__self__", None) is np_inst and hasattr(SHIM, "np_" + getattr(val, "__name__", "")):
                setattr(mod, gname, getattr(SHIM, "np_" + val.__name__))
    return SHIM


class RandomGuard:
    """Proof of ownership: the real generators must not be consumed while artap code runs."""

    def __enter__(self):
        import numpy as np
        self.s = _random.getstate()
        self.n = np.random.get_state()
        return self

    def changed(self):
        import numpy as np
        n = np.random.get_state()
        return _random.getstate() != self.s, not (n[0] == self.n[0] and (n[1] == self.n[1]).all() and n[2:] == self.n[2:])

    def __exit__(self, et, ev, tb):
        if et is None:
            from .common import HarnessError
            py, npy = self.changed()
            if py or npy:
                raise HarnessError("randomness leak: real %s generator state changed during the check" %
                                   ("python" if py else "numpy"))
        return False
