"""Stand-alone writer for the syscall-level crash enumeration: python -m mc.core.crash_writer <history> <seed> <db>

Runs one history of mc.checks.c11 against the store file <db>, logging acknowledgements to <db>.ack with plain
write() calls (deliberately not in the injected syscall set). It is started under strace and killed from outside.
"""
import os
import sys


def main():
    name, seed, db = sys.argv[1], int(sys.argv[2]), sys.argv[3]
    import logging
    import tempfile
    import warnings
    logging.disable(logging.CRITICAL)
    warnings.filterwarnings("ignore")
    tempfile.tempdir = os.path.dirname(os.path.abspath(db))    # the parent's scratch directory (removed by the parent)
    from mc.checks import c11
    fd = os.open(db + ".ack", os.O_WRONLY | os.O_CREAT | os.O_APPEND, 0o600)
    sys.stdout = open(os.devnull, "w")
    c11.run_history(name, db, fd, lambda label: None, None, seed)
    os._exit(0)


if __name__ == "__main__":
    main()
