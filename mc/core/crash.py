"""Process-death enumeration for the SQLite store.

Event level: the parent forks once per crash index k; the child runs a history with the SQLite proxy / objective wrapper
counting events and calls os._exit(137) -- no atexit, no destructors, no connection close -- when the k-th event is
reached ("before" and "after" every connect / execute / commit are distinct events).

Syscall level: the writer runs in a separate interpreter under
  strace -f -e trace=... -e inject=pwrite64,...:signal=KILL:when=k
so that it dies immediately before its k-th file-mutating system call (inside a commit, between journal and database
writes, before the journal unlink, ...).
"""
import os
import subprocess
import sys

from .common import VERIF, HarnessError

INJECT_SET = "pwrite64,pwritev,unlink,unlinkat,rename,renameat,renameat2,ftruncate,fsync,fdatasync,truncate"


def fork_run(child_fn, timeout=120):
    """Run child_fn() in a forked child that must end via os._exit; returns the exit status code."""
    sys.stdout.flush()
    sys.stderr.flush()
    pid = os.fork()
    if pid == 0:
        code = 0
        try:
            child_fn()
        except SystemExit as e:
            code = e.code if isinstance(e.code, int) else 1
        except BaseException:
            import traceback
            try:
                os.write(2, ("crash-child harness exception:\n" + traceback.format_exc()).encode())
            except Exception:
                pass
            code = 99
        os._exit(code)
    _, status = os.waitpid(pid, 0)
    if os.WIFSIGNALED(status):
        return -os.WTERMSIG(status)
    return os.WEXITSTATUS(status)


class EventCounter:
    """on_point callback: dies at the k-th event (k=None: never), remembers labels."""

    def __init__(self, crash_at=None, record=False):
        self.n = 0
        self.crash_at = crash_at
        self.labels = [] if record else None
        self.marks = {}

    def __call__(self, label):
        self.n += 1
        if self.labels is not None:
            self.labels.append(label)
        if self.crash_at is not None and self.n == self.crash_at:
            os._exit(137)

    def mark(self, name):
        self.marks[name] = self.n


def strace_available():
    try:
        r = subprocess.run(["strace", "-V"], capture_output=True, timeout=10)
        return r.returncode == 0
    except Exception:
        return False


def strace_writer(args, when=None, syscall=None, timeout=180):
    """Run `python -m mc.core.crash_writer <args>` under strace.

    when=None: crash-free traced run; returns (returncode, {syscall name: count}).
    otherwise: SIGKILL immediately before the when-th invocation of `syscall` (strace keeps one counter per
    syscall name, so the enumeration is over (name, ordinal) pairs); returns (returncode, None)."""
    import re
    env = dict(os.environ)
    env["PYTHONDONTWRITEBYTECODE"] = "1"
    env["PYTHONPATH"] = VERIF + os.pathsep + env.get("PYTHONPATH", "")
    trace_file = args[-1] + ".strace"
    cmd = ["strace", "-f", "-qq", "-o", "/dev/null" if when is not None else trace_file, "-e", "trace=" + INJECT_SET]
    if when is not None:
        cmd += ["-e", "inject=%s:signal=KILL:when=%d" % (syscall, when)]
    cmd += [sys.executable, "-m", "mc.core.crash_writer"] + list(args)
    r = subprocess.run(cmd, cwd=VERIF, env=env, capture_output=True, timeout=timeout)
    counts = None
    if when is None:
        counts = {}
        try:
            for line in open(trace_file):
                m = re.match(r"^(?:\d+\s+)?([a-z0-9_]+)\(", line)
                if m:
                    counts[m.group(1)] = counts.get(m.group(1), 0) + 1
            os.remove(trace_file)
        except OSError:
            raise HarnessError("strace produced no trace: %s" % r.stderr.decode()[-400:])
    return r.returncode, counts
