"""Controlled scheduler for artap's parallel path, and the SQLite proxy.

artap evaluates a batch with `joblib.Parallel(n_jobs, require='sharedmem')(delayed(job.evaluate)(i) for i in batch)`.
`scheduled(ctx, ...)` replaces the names Parallel/delayed in artap.operators by a model executor with joblib's
contract (tasks pulled lazily from the generator, started in order, at most n_jobs in flight, each called exactly once
on a worker thread sharing memory, __call__ returns when all have finished and re-raises the first task exception) and
the name sqlite3 in artap.datastore by a proxy. Workers are real threads; a baton (one semaphore per worker plus one
for the dispatcher) lets exactly one run. At every scheduling point the dispatcher asks ctx.choose('sched', enabled):
option 0 = keep the running worker (or the lowest id if it finished/blocked), so deviations = pre-emptions.

Waiting is visible: connections are opened with timeout=0; "database is locked" blocks the worker until another
worker commits / rolls back / closes, then ctx.choose('busy', 2) decides between a transparent retry (busy handler
succeeded) and raising OperationalError into artap (busy timeout expired).
"""
import contextlib
import sqlite3 as _sqlite3
import sys
import threading

from .common import HarnessError

WAIT_S = 60.0


class Deadlock(Exception):
    pass


class _Worker:
    def __init__(self, wid):
        self.id = wid
        self.sem = threading.Semaphore(0)
        self.status = "ready"       # ready | blocked | done
        self.thread = None
        self.task = None
        self.label = "start"


class Scheduler:
    def __init__(self, ctx, fine=False, fine_files=()):
        self.ctx = ctx
        self.fine = fine
        self.fine_files = tuple(fine_files)
        self.main_sem = threading.Semaphore(0)
        self.workers = []
        self.current = None
        self.by_ident = {}
        self.trace = []              # (worker id, label) in execution order
        self.errors = []             # (task index, exception)
        self.deadlock = None
        self.release_seq = 0
        self.active = False
        self.points = 0
        self.preemptions_seen = 0

    # ---- called from worker threads ---------------------------------------------------------
    def me(self):
        return self.by_ident.get(threading.get_ident())

    def point(self, label):
        """A scheduling point: hand the baton to the dispatcher and wait to be resumed."""
        w = self.me()
        if w is None or not self.active:
            return
        w.label = label
        self.points += 1
        self.main_sem.release()
        if not w.sem.acquire(timeout=WAIT_S):
            raise HarnessError("worker %d starved at %s" % (w.id, label))

    def block_on_db(self, label):
        """The worker hit 'database is locked': wait for a release event, then ask the busy choice.

        Returns True for 'retry transparently', False for 'raise OperationalError into artap'."""
        w = self.me()
        if w is None or not self.active:
            return False
        w.status = "blocked"
        w.blocked_since = self.release_seq
        w.label = "blocked:" + label
        self.main_sem.release()
        if not w.sem.acquire(timeout=WAIT_S):
            raise HarnessError("worker %d starved while blocked at %s" % (w.id, label))
        c = self.ctx.choose("busy", 2, 1, label)
        return c == 0

    def db_released(self):
        self.release_seq += 1
        for w in self.workers:
            if w.status == "blocked":
                w.status = "ready"

    # ---- dispatcher (runs on the thread that called Parallel.__call__) ------------------------------
    def run_tasks(self, iterable, n_jobs):
        it = iter(iterable)
        results = {}
        n_jobs = max(1, int(n_jobs))
        state = {"next": 0, "exhausted": False, "abort": False}
        lock_free_take = []

        def take():
            if state["exhausted"] or state["abort"]:
                return None
            try:
                t = next(it)
            except StopIteration:
                state["exhausted"] = True
                return None
            k = state["next"]
            state["next"] += 1
            return (k, t)

        def body(w):
            self.by_ident[threading.get_ident()] = w
            if self.fine:
                sys.settrace(self._tracer)
            if not w.sem.acquire(timeout=WAIT_S):
                return
            try:
                while True:
                    t = take()
                    if t is None:
                        break
                    k, (fn, args, kwargs) = t
                    w.task = k
                    self.point("task%d:start" % k)
                    try:
                        results[k] = fn(*args, **kwargs)
                    except HarnessError as e:
                        self.errors.append((-1, e))
                        state["abort"] = True
                    except BaseException as e:   # noqa
                        self.errors.append((k, e))
                        state["abort"] = True
                    self.point("task%d:end" % k)
            finally:
                sys.settrace(None)
                w.status = "done"
                w.label = "done"
                self.main_sem.release()

        self.workers = [_Worker(i) for i in range(n_jobs)]
        self.active = True
        for w in self.workers:
            w.thread = threading.Thread(target=body, args=(w,), daemon=True)
            w.thread.start()
        self.current = None
        try:
            while True:
                alive = [w for w in self.workers if w.status != "done"]
                if not alive:
                    break
                enabled = [w for w in alive if w.status == "ready"]
                if not enabled:
                    self.deadlock = "no enabled worker; blocked: %r" % [(w.id, w.label) for w in alive]
                    # release the blocked workers with a 'raise' decision so the threads can unwind
                    state["abort"] = True
                    for w in alive:
                        w.status = "ready"
                    self.ctx = _AlwaysRaise(self.ctx)
                    continue
                cur = self.current
                running_enabled = cur is not None and cur.status == "ready"
                order = ([cur] if running_enabled else []) + [w for w in enabled if w is not cur or not running_enabled]
                if len(order) > 1:
                    c = self.ctx.choose("sched", len(order), 1 if running_enabled else 0,
                                        "%s|%s" % (cur.label if cur else "-", ",".join("%d:%s" % (w.id, w.label) for w in order)))
                else:
                    c = 0
                nxt = order[c]
                self.current = nxt
                self.trace.append((nxt.id, nxt.label))
                nxt.sem.release()
                if not self.main_sem.acquire(timeout=WAIT_S):
                    raise HarnessError("dispatcher starved; worker %d at %s" % (nxt.id, nxt.label))
        finally:
            self.active = False
            for w in self.workers:
                if w.thread.is_alive():
                    w.sem.release()
            for w in self.workers:
                w.thread.join(timeout=5.0)
        for k, e in self.errors:
            if isinstance(e, HarnessError):
                raise e
        if self.errors:
            raise sorted(self.errors, key=lambda x: x[0])[0][1]
        return [results.get(k) for k in range(state["next"])]

    # ---- fine-grained points: every line of artap's own modules -----------------------------------
    def _tracer(self, frame, event, arg):
        fn = frame.f_code.co_filename
        if not fn.endswith(self.fine_files):
            return None
        return self._line

    def _line(self, frame, event, arg):
        if event == "line":
            self.point("L%s:%d" % (frame.f_code.co_filename.rsplit("/", 1)[-1], frame.f_lineno))
        return self._line


class _AlwaysRaise:
    def __init__(self, ctx):
        self._ctx = ctx

    def choose(self, kind, n, price=1, label=None):
        return 1 if kind == "busy" else 0

    def __getattr__(self, k):
        return getattr(self._ctx, k)


class ModelParallel:
    scheduler_factory = None

    def __init__(self, n_jobs=1, **kw):
        if n_jobs == 0:
            raise ValueError("n_jobs == 0 in Parallel has no meaning")      # as joblib does
        self.n_jobs = n_jobs
        self.timeout = kw.get("timeout")
        self.require = kw.get("require")

    def __call__(self, iterable):
        sch = ModelParallel.scheduler_factory()
        if self.require != "sharedmem":
            # joblib's contract: only require='sharedmem' pins a thread-based backend. With a mere preference the user's outer
            # joblib context (parallel_backend('loky')) decides, and then the tasks run on pickled copies of their arguments
            if sch.ctx.choose("outer-backend", 2, 1, "an outer joblib context selects a process-based backend") == 1:
                import copy
                iterable = [(fn, copy.deepcopy(a), copy.deepcopy(k)) for fn, a, k in iterable]
        tasks = list(iterable)
        # workers beyond the number of tasks never get anything to do (joblib starts them lazily): not modelled as threads
        res = sch.run_tasks(tasks, max(1, min(int(self.n_jobs), len(tasks))) if self.n_jobs and self.n_jobs > 0 else self.n_jobs)
        if self.timeout is not None and res:
            # joblib raises TimeoutError in the caller when a task needs longer than `timeout`; how long the user's
            # objective takes is the environment's choice (evaluation time is unbounded in the statement)
            if sch.ctx.choose("slow-task", 2, 1, "a task outlasts the timeout passed to Parallel") == 1:
                raise TimeoutError("joblib: task exceeded timeout=%r" % (self.timeout,))
        return res


def model_delayed(fn):
    def call(*a, **k):
        return (fn, a, k)
    return call


# ------------------------------------------------------------------------------------------------
# SQLite proxy
# ------------------------------------------------------------------------------------------------
class Hooks:
    """Event sink for the proxy. point(label) is a scheduling / crash point; sched may be None (serial use)."""

    def __init__(self, sched=None, on_point=None, zero_timeout=True):
        self.sched = sched
        self.on_point = on_point
        self.zero_timeout = zero_timeout
        self.lock_conflicts = 0
        self.ops = 0
        # an external process holding the database lock past the busy timeout: an environment choice at every upsert
        self.ctx = None
        self.extlock_max = 0
        self.extlock_price = 0
        self.extlock_injected = 0

    def point(self, label):
        if self.on_point is not None:
            self.on_point(label)
        if self.sched is not None:
            self.sched.point(label)

    def op(self, name, fn, releases=False):
        self.ops += 1
        self.point("db:%s:before" % name)
        if name == "execute-insert" and self.ctx is not None and self.extlock_injected < self.extlock_max:
            if self.ctx.choose("extlock", 2, self.extlock_price, "upsert") == 1:
                self.extlock_injected += 1
                raise _sqlite3.OperationalError("database is locked")
        while True:
            try:
                r = fn()
                break
            except _sqlite3.OperationalError as e:
                if "locked" in str(e) and self.sched is not None and self.sched.active:
                    self.lock_conflicts += 1
                    if self.sched.block_on_db(name):
                        continue
                raise
        if releases and self.sched is not None:
            self.sched.db_released()
        self.point("db:%s:after" % name)
        return r


class CursorProxy:
    def __init__(self, real, conn):
        self._real = real
        self._conn = conn

    def execute(self, sql, *a):
        kind = sql.strip().split(None, 1)[0].lower() if sql.strip() else "sql"
        self._conn._hooks.op("execute-" + kind, lambda: self._real.execute(sql, *a))
        return self

    def __getattr__(self, k):
        return getattr(self._real, k)

    def __iter__(self):
        return iter(self._real)


class ConnProxy:
    def __init__(self, real, hooks):
        self._real = real
        self._hooks = hooks

    def cursor(self):
        return CursorProxy(self._real.cursor(), self)

    def execute(self, sql, *a):
        return self.cursor().execute(sql, *a)

    def commit(self):
        return self._hooks.op("commit", self._real.commit, releases=True)

    def rollback(self):
        return self._hooks.op("rollback", self._real.rollback, releases=True)

    def close(self):
        return self._hooks.op("close", self._real.close, releases=True)

    def __del__(self):
        try:
            self._real.close()
        except Exception:
            pass
        h = self._hooks
        if h.sched is not None:
            h.sched.db_released()

    def __getattr__(self, k):
        return getattr(self._real, k)


class SqliteModuleProxy:
    """Stands in for the `sqlite3` module inside artap.datastore."""

    def __init__(self, hooks):
        self._hooks = hooks

    def connect(self, database, *a, **kw):
        if self._hooks.zero_timeout:
            kw.setdefault("timeout", 0)
        kw.setdefault("check_same_thread", False)
        real = self._hooks.op("connect", lambda: _sqlite3.connect(database, *a, **kw))
        return ConnProxy(real, self._hooks)

    def __getattr__(self, k):
        return getattr(_sqlite3, k)


@contextlib.contextmanager
def sql_proxy(hooks):
    import artap.datastore as ds
    old = ds.sqlite3
    ds.sqlite3 = SqliteModuleProxy(hooks)
    try:
        yield hooks
    finally:
        ds.sqlite3 = old


@contextlib.contextmanager
def scheduled(ctx, fine=False, db=True, on_point=None, extlock=None,
              fine_files=("artap/job.py", "artap/datastore.py", "artap/surrogate.py", "artap/individual.py")):
    """Install the model executor (and the SQLite proxy) for the duration of one execution."""
    import artap.operators as ops
    holder = {}

    def factory():
        s = Scheduler(ctx, fine=fine, fine_files=fine_files)
        holder.setdefault("all", []).append(s)
        holder["sched"] = s
        hooks.sched = s
        return s
    hooks = Hooks(None, on_point=on_point)
    if extlock:
        hooks.ctx, hooks.extlock_max, hooks.extlock_price = ctx, extlock[0], extlock[1]
    old = (ops.Parallel, ops.delayed, ModelParallel.scheduler_factory)
    ops.Parallel, ops.delayed = ModelParallel, model_delayed
    ModelParallel.scheduler_factory = staticmethod(factory)
    holder["hooks"] = hooks
    try:
        if db:
            with sql_proxy(hooks):
                yield holder
        else:
            yield holder
    finally:
        ops.Parallel, ops.delayed, ModelParallel.scheduler_factory = old
        hooks.sched = None


class _DefaultCtx:
    def choose(self, kind, n, price=1, label=None):
        return 0


@contextlib.contextmanager
def default_parallel():
    """Model executor with its default schedule (every worker runs until it finishes or blocks)."""
    with scheduled(_DefaultCtx(), fine=False, db=False) as h:
        yield h
