"""Stateless choice-sequence explorer with a deviation bound (iterated 0, 1, 2, ...).

body(ctx) runs ONE complete execution of a harness on the real artap code; every environment answer is obtained
through ctx.choose(kind, n_options, price). Option 0 is the default; a non-default option costs `price` deviations
(price 0 = free: enumerated exhaustively regardless of the bound). body returns a list of (key, message) violations
and may set ctx.digest (anything hashable) describing what was observed.
"""
from .common import HarnessError, digest as _digest


class HorizonHit(Exception):
    pass


class ReplayDivergence(HarnessError):
    pass


class Ctx:
    def __init__(self, prefix=(), horizon=20000):
        self.prefix = list(prefix)
        self.choices = []
        self.points = []      # (kind, n_options, price, label)
        self.horizon = horizon
        self.digest = None
        self.log = []         # free-form trace for replay files
        self.data = {}

    def choose(self, kind, n, price=1, label=None):
        if n <= 1:
            return 0
        i = len(self.choices)
        if i < len(self.prefix):
            c = self.prefix[i]
            if not (0 <= c < n):
                raise ReplayDivergence("replayed choice %d out of range %d at point %d (%s %s)" % (c, n, i, kind, label))
        else:
            c = 0
        if i >= self.horizon:
            raise HorizonHit()
        self.points.append((kind, n, price, label))
        self.choices.append(c)
        return c

    def deviations(self, upto=None):
        pts = self.points if upto is None else self.points[:upto]
        return sum(p[2] for p, c in zip(pts, self.choices) if c != 0)


def run_once(body, choices, horizon=20000):
    ctx = Ctx(choices, horizon)
    out = body(ctx)
    if len(ctx.choices) < len(choices):
        raise ReplayDivergence("execution consumed %d of %d recorded choices" % (len(ctx.choices), len(choices)))
    return ctx, out


def root_children(body, bound=None, horizon=20000):
    """Run the default execution once and return the prefixes of all its child subtrees (for sharding).

    The subtrees are disjoint and, together with the root execution itself, cover the whole bounded tree."""
    ctx = Ctx([], horizon)
    try:
        out = body(ctx)
    except HorizonHit:
        out = [("horizon", "")]
    if out:
        return []        # the root execution already violates: explore() reports it, nothing to shard
    kids = []
    for i in range(len(ctx.points)):
        kind, n, price, label = ctx.points[i]
        if bound is not None and price > bound:
            continue
        for alt in range(1, n):
            kids.append(ctx.choices[:i] + [alt])
    return kids


def explore(body, col, bound=None, horizon=20000, max_executions=None, on_exec=None, sub="exec", case_extra=None,
            check_determinism=True, start=None, root_only=False):
    """Explore every choice sequence with at most `bound` deviations (None = unbounded), level by level.

    Violations are recorded in col with the full choice sequence as the replay case. Returns number of executions.
    """
    if start is None:
        levels = {0: [[]]}
    else:
        levels = {0: [list(p) for p in start]}      # sub-roots: explored with the same overall bound
    level = 0
    n_exec = 0
    capped = False
    first = True
    while True:
        pending = [k for k in levels if levels[k]]
        if not pending:
            break
        level = min(pending)
        prefix = levels[level].pop()
        ctx = Ctx(prefix, horizon)
        try:
            out = body(ctx)
        except HorizonHit:
            col.count("horizon_hits")
            out = []
        n_exec += 1
        col.case()
        col.count("choice_points", len(ctx.points))
        col.maxi("max_deviations_completed", ctx.deviations())
        if ctx.digest is not None:
            col.add_to("outcomes", ctx.digest if isinstance(ctx.digest, (int, str)) else _digest(ctx.digest))
        if on_exec is not None:
            on_exec(ctx, out)
        for key, msg in out or []:
            case = {"choices": list(ctx.choices), "points": [[p[0], p[1], p[3]] for p in ctx.points][:200]}
            if case_extra:
                case.update(case_extra)
            col.violation(key, sub, msg, case)
        if first and check_determinism:
            first = False
            ctx2, out2 = run_once(body, ctx.choices, horizon)
            differs = ctx2.digest != ctx.digest or ctx2.choices != ctx.choices or \
                [k for k, _ in (out2 or [])] != [k for k, _ in (out or [])]
            if differs and (out or out2):
                # the code under test already violates the property in one of the two runs (state kept by artap objects across
                # calls is one way of doing so): the violations are reported, the replay mismatch is not a harness matter
                for key, msg in out2 or []:
                    case = {"choices": list(ctx2.choices)}
                    if case_extra:
                        case.update(case_extra)
                    col.violation(key, sub, msg, case)
            elif differs:
                raise HarnessError("determinism contract broken: replaying the same choice sequence gave a different "
                                   "observation\nfirst : %r\nsecond: %r" % (ctx.digest, ctx2.digest))
        if col.full:
            break
        if max_executions is not None and n_exec >= max_executions:
            capped = True
            break
        if root_only:
            break
        if out:
            continue      # a violating execution is reported, not expanded (keeps checks fast on badly broken trees)
        for i in range(len(prefix), len(ctx.points)):
            kind, n, price, label = ctx.points[i]
            cost = ctx.deviations(i)
            if bound is not None and cost + price > bound:
                continue
            lv = cost + price
            for alt in range(n - 1, 0, -1):
                levels.setdefault(lv, []).append(ctx.choices[:i] + [alt])
    if capped:
        col.count("caps_hit")
        col.notes.append("execution cap %s hit: exploration NOT exhaustive for this sub-check" % max_executions)
    return n_exec


def explore_part(body, col, part, nparts, bound=None, **kw):
    """Shard `part` of `nparts` of the bounded tree: part 0 also runs the root execution."""
    kids = root_children(body, bound, kw.get("horizon", 20000))
    n = 0
    if part == 0:
        n += explore(body, col, bound=bound, root_only=True, **kw)
    mine = kids[part::nparts]
    if mine:
        kw2 = dict(kw)
        kw2["check_determinism"] = False
        n += explore(body, col, bound=bound, start=mine, **kw2)
    return n
