"""Shared plumbing: result collector, sharded execution, scratch space, quiet artap import."""
import atexit
import hashlib
import io
import json
import logging
import multiprocessing as mp
import os
import shutil
import sys
import tempfile
import time
import traceback

VERIF = os.path.dirname(os.path.dirname(os.path.dirname(os.path.abspath(__file__))))
MAX_VIOLATIONS = 5          # distinct fingerprints kept per check
NPROC = int(os.environ.get("VERIF_JOBS", "0")) or min(16, os.cpu_count() or 1)


class HarnessError(Exception):
    """The check itself is broken (exit status 2) -- never reported as a violation."""


def digest(obj) -> str:
    return hashlib.sha1(json.dumps(obj, sort_keys=True, default=repr).encode()).hexdigest()[:16]


def jsonable(x):
    """Best-effort conversion of harness objects to plain JSON (floats via repr-safe forms)."""
    import math
    try:
        import numpy as np
    except Exception:  # pragma: no cover
        np = None
    if isinstance(x, bool) or x is None or isinstance(x, (int, str)):
        return x
    if isinstance(x, float):
        if math.isnan(x) or math.isinf(x):
            return repr(x)
        return x
    if np is not None and isinstance(x, np.generic):
        return jsonable(x.item())
    if np is not None and isinstance(x, np.ndarray):
        return [jsonable(v) for v in x.tolist()]
    if isinstance(x, dict):
        return {str(k): jsonable(v) for k, v in x.items()}
    if isinstance(x, (list, tuple, set, frozenset)):
        return [jsonable(v) for v in x]
    return repr(x)


class Collector:
    """Counts what a (sub-)check covered and keeps violations. Picklable; merged across shards."""

    def __init__(self):
        self.evaluations = 0
        self.distinct = set()        # hashes of non-trivial distinct cases (by the check's rule)
        self.samples = []            # a few written-out cases
        self.violations = []         # dicts: key, sub, message, case
        self.counters = {}           # free-form integer counters (states, transitions, ...)
        self.sets = {}               # named sets that must be merged by union (outcomes, states, ...)
        self.notes = []

    # -- counting ---------------------------------------------------------------------------
    def case(self, n=1):
        self.evaluations += n

    def nontrivial(self, key):
        self.distinct.add(key if isinstance(key, int) else hash(key))

    def count(self, name, n=1):
        self.counters[name] = self.counters.get(name, 0) + n

    def maxi(self, name, v):
        self.counters[name] = max(self.counters.get(name, v), v)

    def add_to(self, name, key):
        self.sets.setdefault(name, set()).add(key if isinstance(key, (int, str)) else hash(key))

    def sample(self, s, limit=4):
        if len(self.samples) < limit:
            self.samples.append(jsonable(s))

    # -- violations -------------------------------------------------------------------------
    def violation(self, key, sub, message, case):
        """key: stable fingerprint (call site + input class). case: JSON-able payload for replay."""
        for v in self.violations:
            if v["key"] == key:
                v["count"] = v.get("count", 1) + 1
                return
        if len(self.violations) < 4 * MAX_VIOLATIONS:
            self.violations.append({"key": key, "sub": sub, "message": message,
                                    "case": jsonable(case), "count": 1})

    @property
    def full(self):
        """Stop exploring: five distinct fingerprints, or one fingerprint seen hundreds of times (a check must also
        terminate quickly on a badly broken tree)."""
        return len(self.violations) >= MAX_VIOLATIONS or any(v.get("count", 1) >= 300 for v in self.violations)

    def merge(self, other):
        self.evaluations += other.evaluations
        self.distinct |= other.distinct
        for s in other.samples:
            if len(self.samples) < 6:
                self.samples.append(s)
        for v in other.violations:
            for w in self.violations:
                if w["key"] == v["key"]:
                    w["count"] = w.get("count", 1) + v.get("count", 1)
                    break
            else:
                self.violations.append(v)
        for k, n in other.counters.items():
            if k.startswith("max_"):
                self.counters[k] = max(self.counters.get(k, n), n)
            else:
                self.counters[k] = self.counters.get(k, 0) + n
        for k, s in other.sets.items():
            self.sets.setdefault(k, set()).update(s)
        self.notes.extend(n for n in other.notes if n not in self.notes)
        return self


def _run_shard(args):
    fn, shard = args
    try:
        quiet()
        if mp.current_process().name != "MainProcess" and not getattr(_run_shard, "_own", None):
            _run_shard._own = tempfile.mkdtemp(prefix="p%d-" % os.getpid(), dir=scratch_root())
            tempfile.tempdir = _run_shard._own
        c = Collector()
        fn(shard, c)
        return ("ok", c)
    except BaseException:
        return ("err", traceback.format_exc())


def run_shards(fn, shards, procs=None):
    """Run fn(shard, collector) for every shard, in forked worker processes; merge collectors.

    fn must be a module-level function; shards must be picklable. A harness exception in any shard is
    a HarnessError (exit 2), never a violation.
    """
    shards = list(shards)
    total = Collector()
    procs = min(procs or NPROC, max(1, len(shards)))
    if procs <= 1 or len(shards) <= 1:
        for s in shards:
            st, c = _run_shard((fn, s))
            if st == "err":
                raise HarnessError(c)
            total.merge(c)
        return total
    ctx = mp.get_context("fork")
    with ctx.Pool(procs) as pool:
        for st, c in pool.imap_unordered(_run_shard, [(fn, s) for s in shards], chunksize=1):
            if st == "err":
                pool.terminate()
                raise HarnessError(c)
            total.merge(c)
    return total


# -- scratch space ------------------------------------------------------------------------------
_SCRATCH = None


def scratch_root():
    """Per-run scratch directory on tmpfs; removed at exit. Also redirects tempfile (Problem working dirs)."""
    global _SCRATCH
    if _SCRATCH is None or not os.path.isdir(_SCRATCH):
        base = "/dev/shm" if os.path.isdir("/dev/shm") and os.access("/dev/shm", os.W_OK) else None
        if base is None:
            base = os.path.join(VERIF, "scratch")
            os.makedirs(base, exist_ok=True)
        _SCRATCH = tempfile.mkdtemp(prefix="artap-verif-", dir=base)
        tempfile.tempdir = _SCRATCH
        owner = os.getpid()

        def _rm(path=_SCRATCH, owner=owner):
            if os.getpid() == owner:
                shutil.rmtree(path, ignore_errors=True)
        atexit.register(_rm)
    return _SCRATCH


_QUIET = False


class _Sink(io.TextIOBase):
    def write(self, s):
        return len(s)


def quiet():
    """Silence artap's logging and print() chatter; keep the real stdout for interface lines."""
    global _QUIET
    logging.disable(logging.CRITICAL)
    scratch_root()
    if not _QUIET:
        _QUIET = True
        import warnings
        warnings.filterwarnings("ignore")


REAL_STDOUT = sys.stdout


class muted:
    """Context manager: route print() of library code to a sink."""

    def __enter__(self):
        self._o = sys.stdout
        sys.stdout = _Sink()
        return self

    def __exit__(self, *a):
        sys.stdout = self._o
        return False


def say(*a):
    print(*a, file=REAL_STDOUT, flush=True)


class Timer:
    def __init__(self):
        self.t0 = time.time()

    def __call__(self):
        return time.time() - self.t0
