"""Reference oracles, written independently of artap and kept boring."""
import math


def ref_dominance(p, q):
    """0 = neither, 1 = p dominates, 2 = q dominates.  p, q: signed costs followed by the feasibility marker.

    Marker reading (what artap writes): falsy (False/0) = satisfies all constraints, truthy = does not / unconstrained.
    A falsy marker beats a truthy one; equal markers fall through to Pareto dominance on the signed costs.
    """
    mp, mq = p[-1], q[-1]
    if bool(mp) != bool(mq):
        return 1 if not mp else 2
    a, b = p[:-1], q[:-1]
    p_le = all(x <= y for x, y in zip(a, b))
    q_le = all(y <= x for x, y in zip(a, b))
    if p_le and not q_le:
        return 1
    if q_le and not p_le:
        return 2
    return 0


def swap(v):
    return {0: 0, 1: 2, 2: 1}[v]


def nondominated(vectors):
    """Set of cost tuples (incl. marker) not dominated by any other offered tuple."""
    vs = list(dict.fromkeys(tuple(v) for v in vectors))
    return {v for v in vs if not any(ref_dominance(w, v) == 1 for w in vs)}


def ref_ranks(costs):
    """rank(i) = 1 if nobody dominates i else 1 + max rank of its dominators (recursive definition)."""
    n = len(costs)
    dom = [[ref_dominance(costs[j], costs[i]) == 1 for j in range(n)] for i in range(n)]  # dom[i][j]: j dominates i
    memo = {}
    doms = [[j for j in range(n) if dom[i][j]] for i in range(n)]
    for start in range(n):            # the recursive definition, evaluated with an explicit stack (chains can be long)
        stack = [start]
        while stack:
            i = stack[-1]
            if i in memo:
                stack.pop()
                continue
            todo = [j for j in doms[i] if j not in memo]
            if todo:
                stack.extend(todo)
                continue
            memo[i] = 1 if not doms[i] else 1 + max(memo[j] for j in doms[i])
            stack.pop()
    return [memo[i] for i in range(n)]


def ref_crowding(front_costs):
    """Textbook crowding distance for a tie-free front: list of objective tuples -> list of distances."""
    n = len(front_costs)
    if n == 0:
        return []
    if n <= 2:
        return [math.inf] * n
    m = len(front_costs[0])
    cd = [0.0] * n
    for d in range(m):
        order = sorted(range(n), key=lambda i: front_costs[i][d])
        lo, hi = front_costs[order[0]][d], front_costs[order[-1]][d]
        cd[order[0]] = math.inf
        cd[order[-1]] = math.inf
        if hi - lo > 0:
            for k in range(1, n - 1):
                cd[order[k]] += (front_costs[order[k + 1]][d] - front_costs[order[k - 1]][d]) / (hi - lo)
    return cd


def radical_inverse(i, base):
    """Van der Corput radical inverse of integer i >= 0 in the given base, exact rational -> float."""
    num, den = 0, 1
    while i > 0:
        i, r = divmod(i, base)
        num = num * base + r
        den *= base
    return num / den


def first_primes(n):
    out, k = [], 2
    while len(out) < n:
        if all(k % p for p in out):
            out.append(k)
        k += 1
    return out
