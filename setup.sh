#!/bin/sh
# Nothing to build: checks import artap from /repo's working tree through /venv (editable install).
cd "$(dirname "$0")" || exit 1
PYTHONDONTWRITEBYTECODE=1 /venv/bin/python - <<'PY'
import os, json, artap, jsonschema
where = os.path.dirname(os.path.dirname(os.path.abspath(artap.__file__)))
assert os.path.realpath(where) == "/repo", where
json.load(open("schemas/EVIDENCE.schema.json"))
print("setup ok: artap from", where)
PY
